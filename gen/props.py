"""Per-property correspondence checks (see DESIGN.md section 7)."""
import os, json, struct
from lzgen import *

NEEDS_RELEASE = {'C04', 'C07'}
TRUSTED_BASE = [
    'Coq 8.16.1 kernel (coqc); vm_compute used for finite facts; no native_compute',
    'no axioms declared; Print Assumptions of every property theorem must be "Closed under the global context"',
    'hand-written Gallina model coq/Model/*.v of /repo/src, tied to the code by this differential run (extracted OCaml model vs real crate on the same case files)',
    'format theory coq/Format/*.v (sem, reference encoder, LZMA2 serialiser) as the meaning of "well-formed stream"',
    'extraction with ExtrOcamlBasic only (Extract Inductive for bool, option, unit, list, prod, sumbool; no Extract Constant), OCaml 4.13.1, ocaml/driver.ml',
    'Rust harness /verif/harness (readers, sinks, fault injection, counting allocator, watchdog), gen/*.py, ./check',
    'modelled not verified: CRC functions (section variables in theorems, table-driven instance when run), std::io adapters (BufReader, Take, read_exact, write_all, Bytes), byteorder, 64-bit usize, allocator',
]
COMMON_ASSUMPTIONS = [
    'the model is tied to the code by differential testing only; its strength is bounded by the generators whose distribution is in coverage.input_distribution',
    'io::ErrorKind::Interrupted is not injected (std retries it)',
]
ASSUMPTIONS = {}
RULES = {}
RUN = {}

def prop(pid, rule, assumptions=()):
    def deco(f):
        RUN[pid] = f; RULES[pid] = rule; ASSUMPTIONS[pid] = list(assumptions)
        return f
    return deco

# ------------------------------------------------------------------ generic comparison
def run_both(ck, cases, release=False):
    """cases: list of dicts with 'line'.  Fills c['m'] and c['r'] (parsed results)."""
    lines = [c['line'] for c in cases]
    if ck.tier == 'thorough' and not ck.stats.get('extraction_crosscheck_cases'):
        extraction_crosscheck(ck, lines)
    ms = run_model(lines)
    rs = run_impl(lines, release=release)
    for c, m, r in zip(cases, ms, rs):
        if m.startswith('model-crash') or m.startswith('unknown-op'):
            raise InfraError('model runner: %s on %s' % (m, c['line'][:200]))
        c['m_raw'], c['r_raw'] = m, r
        c['m'], c['r'] = parse(m), parse(r)
        ck.count('compared')
        if c['r'].get('verdict') == 'abort':
            # never acceptable: the library took the whole process down (allocation failure, stack overflow) instead of returning
            ck.violation('oracle', 'the implementation aborted the process on this input (%s)' % c['r'].get('why'), replay_dict(c))
        # error classes are recorded (which model error branches the inputs reach) but never gate a verdict
        mw, rw = c['m'].get('why'), c['r'].get('why')
        if mw is not None:
            ck.count('model_outcome_' + (mw if mw in ('-', 'io', 'hts', 'lzma', 'xz') else 'panic:' + mw))
            if rw is not None and mw in ('io', 'hts', 'lzma', 'xz') and rw != mw and c['m'].get('verdict') == c['r'].get('verdict'):
                ck.count('error_class_differs_from_model')
    return cases

def replay_dict(c, extra=None):
    d = {'case': c['line'], 'model_result': c.get('m_raw'), 'impl_result': c.get('r_raw'),
         'meta': c.get('meta', {}),
         'how_to_replay': './check <id> --replay <this file>   (re-runs the case on build/ocaml/modelrun and build/harness-target/debug/lzrs)'}
    if extra: d.update(extra)
    return d

def field_diff(c, fields):
    return [f for f in fields if c['m'].get(f) != c['r'].get(f)]

def judge(ck, c, fields, oracle, direction='both', io_pattern=False, premise_guard=False):
    """Compare model and implementation on [fields].  oracle(c) -> None if the implementation's
    behaviour satisfies the property on this case, else a description of the failure.
    direction: 'both' | 'model_ok' (only model-ok cases must agree) | 'impl_ok' (only impl-ok cases must agree)"""
    bad = oracle(c) if oracle else None
    if bad and premise_guard and not field_diff(c, fields):
        # The oracle of this property is built on a premise of the GENERATOR ("this input is malformed, so it must be rejected").
        # Here the implementation does exactly what the proved model does, so what is wrong is the premise, not the code: the
        # theorems, not the generator, define which inputs must be rejected.  Recorded in the evidence, not an alarm.
        ck.count('oracle_premise_conflicts')
        ck.drift.append({'case': c['line'][:160], 'premise_conflict': bad[:200]})
        return True
    if bad:
        ck.violation('oracle', bad, replay_dict(c))
        return False
    # for the I/O-fault property the sink's call pattern is part of the tie (the k-th write of the model must be the k-th write
    # of the code for the fault theorems to speak about the same experiment): number of write calls and of flushes
    if io_pattern and 'out' in fields:
        fields = list(fields) + [f for f in ('wc', 'fl') if f not in fields and f in c['m'] and f in c['r']]
    diff = field_diff(c, fields)
    if not diff:
        return True
    mv, rv = c['m'].get('verdict'), c['r'].get('verdict')
    relevant = (direction == 'both' or (direction == 'model_ok' and mv == 'ok') or (direction == 'impl_ok' and rv == 'ok'))
    if relevant:
        ck.violation('correspondence', 'model and implementation differ on %s' % ','.join(diff), replay_dict(c))
        return False
    ck.drift.append({'case': c['line'][:160], 'fields': diff})
    return True

def replay(pid, path, ck):
    d = json.load(open(path))
    lines = d['case'] if isinstance(d['case'], list) else [d['case']]
    cases = run_both(ck, [{'line': l} for l in lines])
    for c in cases:
        print('case : ' + c['line'][:300])
        print('model: ' + c['m_raw'][:300])
        print('impl : ' + c['r_raw'][:300])
        if c['m_raw'].split(' peak=')[0] != c['r_raw'].split(' peak=')[0]:
            ck.violation('correspondence', 'replayed case still differs', replay_dict(c))

# ------------------------------------------------------------------ stream material shared by several properties
DICT_FIELDS = [0, 1, 4095, 4096, 4097, 8192, 65536, 1 << 20, 0x7FFFFFFF, 0xFFFFFFFF]

def junk_field(rng):
    """the 8 header bytes that ReadHeaderButUseProvided skips: all ones ("unknown"), zero, or garbage"""
    return rng.choice([b'\xff' * 8, b'\xff' * 8, bytes(8), rng.bytes(8), rng.bytes(8)])

def rand_props(rng, lzma2=False):
    if rng.chance(1, 4):
        return (3, 0, 2)
    if rng.chance(1, 8):       # the corners: properties byte 224, pb = 4 position mask, lc = 8, lp = 4
        return rng.choice([(4, 0, 4), (0, 4, 4), (0, 0, 0), (0, 0, 4), (4, 0, 0), (0, 4, 0)] if lzma2 else [(8, 4, 4), (8, 4, 4), (0, 0, 0), (8, 0, 0), (0, 4, 0), (0, 0, 4), (8, 4, 0)])
    while True:
        lc, lp, pb = rng.range(0, 8), rng.range(0, 4), rng.range(0, 4)
        if not lzma2 or lc + lp <= 4:
            return (lc, lp, pb)

def gen_lzma_streams(rng, count, big_every=0, end_styles=('marker', 'sized', 'sized+marker'), max_syms=60):
    """-> list of dicts: bytes (13-byte header file), out, props, dict, style, prog"""
    reqs, metas = [], []
    for k in range(count):
        lc, lp, pb = rand_props(rng)
        big = big_every and (k % big_every == big_every - 1)
        dict_field = rng.choice([0, 1, 4095, 4096, 4097, 5000, 8192]) if big else rng.choice(DICT_FIELDS)
        window = max(dict_field, 4096)
        if big and rng.chance(1, 2):
            # land exactly on a multiple of the window and continue with a literal (then anything): the wrap-point cases
            laps = rng.range(1, 2)
            pbld = random_program(rng, 4000, window, lit_bias=1, until=window * laps - 600)
            exact_size_syms(pbld, window * laps - pbld.n)
            if rng.chance(2, 3):                     # otherwise the output ends exactly on the window boundary
                pbld.lit(rng.below(256))
                for _ in range(rng.range(0, 40)): pbld.random_sym(rng, rng.choice([1, 3]))
        elif big:
            pbld = random_program(rng, 4000, window, lit_bias=1, until=window * rng.range(1, 3) + rng.range(1, 600))
        else:
            pbld = random_program(rng, rng.range(0, max_syms), window, lit_bias=rng.choice([1, 3, 8]))
        style = rng.choice(list(end_styles))
        end = style in ('marker', 'sized+marker')
        size = 'none' if style == 'marker' else str(pbld.n)
        delta = 0
        reqs.append('ref_lzma lc=%d lp=%d pb=%d dict=%d size=%s delta=%d prog=%s' % (lc, lp, pb, dict_field, size, delta, pbld.text(end)))
        metas.append({'props': (lc, lp, pb), 'dict': dict_field, 'style': style, 'n': pbld.n, 'kinds': dict(pbld.kinds), 'big': bool(big), 'nsyms': len(pbld.syms)})
    res = []
    for enc, meta, rq in zip(ref_encode(reqs), metas, reqs):
        if enc is None:
            raise InfraError('reference encoder rejected a generated program: ' + rq[:200])
        meta = dict(meta); meta['bytes'], meta['out'] = enc; meta['ref'] = rq if len(rq) < 600 else rq[:600] + '...'
        res.append(meta)
    return res

def gen_wrap_streams(rng, count, end_styles=('marker', 'sized')):
    """streams (same dict format as gen_lzma_streams) whose output crosses the 4096-byte window with a LITERAL exactly at a window
    multiple, preceded by a match ending exactly on the boundary - the wrap-point cases, guaranteed rather than left to chance"""
    reqs, metas = [], []
    for k in range(count):
        lc, lp, pb = rand_props(rng)
        laps = 1 + (k % 2)
        pbld = random_program(rng, 4000, 4096, lit_bias=1, until=4096 * laps - 600)
        exact_size_syms(pbld, 4096 * laps - pbld.n)
        pbld.lit(rng.below(256))
        if k % 2 == 0:
            # ... then a NON-overlapping copy whose source straddles the physical wrap point while its destination does not
            for _ in range(rng.range(20, 60)): pbld.lit(rng.below(256))
            kk = pbld.n - 4096 * laps                      # cursor position
            L = rng.range(5, 40); j = rng.range(1, L - 1)
            if kk + j >= L: pbld.match(kk + j, L)
        for _ in range(rng.range(3, 40)): pbld.random_sym(rng, rng.choice([1, 3]))
        style = list(end_styles)[(k + 1) % len(end_styles)]       # cycle: every style occurs, deterministically
        reqs.append('ref_lzma lc=%d lp=%d pb=%d dict=%d size=%s delta=0 prog=%s' % (lc, lp, pb, rng.choice([0, 4096]), 'none' if style == 'marker' else str(pbld.n), pbld.text(style != 'sized')))
        metas.append({'props': (lc, lp, pb), 'dict': 4096, 'style': style, 'n': pbld.n, 'kinds': dict(pbld.kinds), 'big': True, 'nsyms': len(pbld.syms), 'wrap_literal': True})
    res = []
    for enc, meta in zip(ref_encode(reqs), metas):
        if enc is None: raise InfraError('reference encoder rejected a wrap-point program')
        meta = dict(meta); meta['bytes'], meta['out'] = enc; meta['ref'] = 'wrap-point literal stream'
        res.append(meta)
    return res

def gen_sweep_streams(rng, props_list):
    """.lzma streams (dict format of gen_lzma_streams) made of cell-sweep programs under the given properties: every probability
    cell is used, in particular with pb = 4 (16 position states) and lp = 4"""
    reqs, metas = [], []
    for (lc, lp, pb) in props_list:
        pbld = sweep_program(rng, 4096)
        style = rng.choice(['marker', 'sized'])
        reqs.append('ref_lzma lc=%d lp=%d pb=%d dict=4096 size=%s delta=0 prog=%s' % (lc, lp, pb, 'none' if style == 'marker' else str(pbld.n), pbld.text(style == 'marker')))
        metas.append({'props': (lc, lp, pb), 'dict': 4096, 'style': style, 'n': pbld.n, 'kinds': dict(pbld.kinds), 'big': True, 'nsyms': len(pbld.syms), 'sweep': True})
    res = []
    for enc, meta in zip(ref_encode(reqs), metas):
        if enc is None: raise InfraError('reference encoder rejected a sweep program')
        meta = dict(meta); meta['bytes'], meta['out'] = enc; meta['ref'] = 'cell sweep'
        res.append(meta)
    return res

def gen_costly_literal_streams(rng, count):
    """streams with a literal that costs about six input bytes: EVERY node on its path through the literal tree has been trained
    towards the opposite bit (phases of identical literals that differ from it in one bit, deepest node first, so that a later
    phase never revisits an earlier phase's node).  lc = lp = 0, so there is a single literal context.  Same dict format as
    gen_lzma_streams."""
    reqs, metas = [], []
    for k in range(count):
        lc, lp, pb = 0, 0, rng.choice([0, 2, 4])
        y = rng.below(256)
        pbld = ProgBuilder(4096)
        for depth in range(7, -1, -1):
            t = y ^ (1 << (7 - depth))
            for _ in range(rng.range(230, 300)): pbld.lit(t)
        pbld.lit(y)
        for _ in range(rng.range(0, 6)): pbld.lit(rng.choice([y, y ^ 0x80, rng.below(256)]))
        style = rng.choice(['marker', 'sized'])
        reqs.append('ref_lzma lc=%d lp=%d pb=%d dict=4096 size=%s delta=0 prog=%s' % (lc, lp, pb, 'none' if style == 'marker' else str(pbld.n), pbld.text(style == 'marker')))
        metas.append({'props': (lc, lp, pb), 'dict': 4096, 'style': style, 'n': pbld.n, 'kinds': dict(pbld.kinds), 'big': False, 'nsyms': len(pbld.syms), 'costly_literal': True})
    res = []
    for enc, meta in zip(ref_encode(reqs), metas):
        if enc is None: raise InfraError('reference encoder rejected a costly-literal program')
        meta = dict(meta); meta['bytes'], meta['out'] = enc; meta['ref'] = 'literal tree trained against the literal that follows'
        res.append(meta)
    return res

def lzma_oracle_exact(c):
    """C01-style oracle: the implementation must succeed and deliver exactly the format-defined bytes"""
    exp = c['meta_full']['out']
    r = c['r']
    if r.get('verdict') != 'ok':
        return 'well-formed stream rejected (%s) by the implementation' % r.get('verdict')
    if unhx(r.get('out', '-')) != exp:
        return 'implementation output differs from the bytes the format defines'
    return None

def light(meta):
    return {k: v for k, v in meta.items() if k not in ('bytes', 'out')}

# a program that visits (nearly) every probability cell of the decoder
def sweep_program(rng, window):
    pbld = ProgBuilder(window)
    for _ in range(300): pbld.lit(rng.below(256))
    dists = list(range(1, 301)) + [rng.range(301, 4000) for _ in range(40)]
    dists = [d_ for d_ in dists if window is None or d_ <= window] or [1]
    for _rep in range(3):
        rng.shuffle(dists)
        for d_ in dists:
            if d_ > pbld.maxd(): continue
            pbld.match(d_, rng.choice([2, 3, 9, 10, 17, 18, 100, 273]) if rng.chance(1, 2) else rng.range(2, 40))
            # 0-3 follow-up symbols, so that repeats follow repeats and short repeats (every automaton state 7..11 takes decisions)
            for _f in range(rng.choice([0, 0, 1, 1, 2, 3])):
                r = rng.below(3)
                if r == 0: pbld.lit(rng.below(256))
                elif r == 1 and pbld.reps[0] <= pbld.maxd(): pbld.shortrep()
                elif r == 2:
                    cands = [i for i in range(4) if pbld.reps[i] <= pbld.maxd()]
                    if cands: pbld.rep(rng.choice(cands), pick_len(rng))
    return pbld

# ------------------------------------------------------------------ C01
@prop('C01', 'symbol programs (all symbol kinds, lc/lp/pb, dictionary fields incl. <4096 and outputs larger than the window) encoded by the Coq reference encoder, decoded through lzma_decompress_with_options and the raw LzmaDecoder (dictionaries 1-8); non-trivial = program contains at least one match/rep or wraps the window; distinct by hash of the case line')
def run_C01(ck):
    rng = Rng(ck.seed).fork('C01')
    n = 400 if ck.tier == 'quick' else 4000
    streams = gen_lzma_streams(rng, n, big_every=12 if ck.tier == 'quick' else 8) + gen_wrap_streams(rng, 4 if ck.tier == 'quick' else 30, ('marker', 'sized', 'sized+marker'))
    # far distances: 1.1 MiB of output, then matches at 2^k - 1, 2^k, 2^k + 1 for k = 7..20 - every distance slot up to 41 with
    # its direct and align bits
    for rep_ in range(1 if ck.tier == 'quick' else 4):
        lc, lp, pb = rand_props(rng)
        pbld = ProgBuilder(1 << 21)
        for _ in range(40): pbld.lit(rng.below(256))
        exact_size_syms(pbld, (1 << 20) + 70000 - pbld.n)
        for k_ in range(7, 21):
            for d_ in ((1 << k_) - 1, 1 << k_, (1 << k_) + 1, (3 << (k_ - 1)) + rng.below(1 << (k_ - 1))):
                if d_ > pbld.n: continue
                pbld.match(d_, rng.choice([2, 3, 5, 18, 19]))
                if rng.chance(1, 3): pbld.lit(rng.below(256))
        e_ = ref_encode(['ref_lzma lc=%d lp=%d pb=%d dict=%d size=none delta=0 prog=%s' % (lc, lp, pb, 1 << 21, pbld.text(True))])[0]
        if e_ is None: raise InfraError('reference encoder rejected the far-distance program')
        streams.append({'props': (lc, lp, pb), 'dict': 1 << 21, 'style': 'marker', 'n': pbld.n, 'kinds': dict(pbld.kinds), 'big': False, 'nsyms': len(pbld.syms),
                        'bytes': e_[0], 'out': e_[1], 'ref': 'far distances up to 2^20'})
    cases = []
    for s in streams:
        b = s['bytes']
        opt, data = 'rfh', b
        r = rng.below(6)
        if r == 0 and s['style'] != 'marker':
            opt = 'rhp:%d' % s['n']; data = b[:5] + junk_field(rng) + b[13:]
        elif r == 1:
            opt = 'up:%s' % ('none' if s['style'] == 'marker' else s['n']); data = b[:5] + b[13:]
        elif r == 2 and s['style'] == 'marker':
            opt = 'rhp:none'; data = b[:5] + junk_field(rng) + b[13:]
        trail = b''
        if s['style'] == 'sized' and rng.chance(1, 3):
            trail = rng.bytes(rng.range(1, 30))
        rd = rng.choice(['all', 'all', '1', '3,1,7', 'std:slice', 'std:buf:%d' % rng.range(1, 40)])
        line = 'lzma_dec opt=%s in=%s rd=%s' % (opt, hx(data + trail), rd)
        if s.get('big') or rng.chance(1, 5): line += ' wr=%s' % rng.choice(['all', '1', '3,1', '1000', '4095,2'])     # short-writing sinks, esp. when the window wraps
        cases.append({'line': line, 'meta': light(s), 'meta_full': s})
        ck.count('style_' + s['style']); ck.count('opt_' + opt.split(':')[0])
        for k, v in s['kinds'].items(): ck.count('sym_' + k, v)
        if s['big']: ck.count('output_exceeds_window')
    # raw API with tiny dictionaries: wraps happen every few bytes
    reqs, metas = [], []
    for k in range(n // 2):
        lc, lp, pb = rand_props(rng)
        d = rng.choice([1, 2, 3, 4, 5, 7, 8, 16, 4096])
        pbld = random_program(rng, rng.range(1, 80), d, lit_bias=rng.choice([1, 3]))
        sized = rng.chance(1, 2)
        reqs.append('ref_payload lc=%d lp=%d pb=%d window=%d delta=0 prog=%s' % (lc, lp, pb, d, pbld.text(not sized)))
        metas.append({'props': (lc, lp, pb), 'dict': d, 'n': pbld.n, 'sized': sized, 'kinds': dict(pbld.kinds)})
    for k in range(5 if ck.tier == 'quick' else 30):
        lc, lp, pb = [(3, 0, 2), (0, 0, 4), (8, 4, 0), (0, 4, 3), (4, 2, 1)][k] if k < 5 else rand_props(rng)
        pbld = sweep_program(rng, 4096)
        reqs.append('ref_payload lc=%d lp=%d pb=%d window=4096 delta=0 prog=%s' % (lc, lp, pb, pbld.text(True)))
        metas.append({'props': (lc, lp, pb), 'dict': 4096, 'n': pbld.n, 'sized': False, 'kinds': dict(pbld.kinds), 'sweep': True})
    for enc, meta, rq in zip(ref_encode(reqs), metas, reqs):
        if enc is None: raise InfraError('reference encoder rejected: ' + rq[:200])
        lc, lp, pb = meta['props']
        line = 'raw_lzma lc=%d lp=%d pb=%d dict=%d size=%s ops=d:%s' % (lc, lp, pb, meta['dict'], meta['n'] if meta['sized'] else 'none', hx(enc[0]))
        meta['ref'] = rq[:400]
        cases.append({'line': line, 'meta': meta, 'raw_expect': enc[1]})
        ck.count('raw_dict_%d' % meta['dict'])
    # configuration cross: the same well-formed stream under random COMBINATIONS of entry point x header option x memory limit x
    # allow_incomplete x reader policy x sink policy x chunking - options are crossed, not varied one at a time
    xs = gen_lzma_streams(rng, 8 if ck.tier == 'quick' else 60, big_every=4, max_syms=40) + gen_wrap_streams(rng, 2 if ck.tier == 'quick' else 8, ('marker', 'sized', 'sized+marker'))
    cross = []
    for s_ in xs:
        b_ = s_['bytes']; need_ = min(max(s_['dict'], 4096), s_['n'])
        for _ in range(6 if ck.tier == 'quick' else 12):
            size_ = 'none' if s_['style'] == 'marker' else str(s_['n'])
            okind = rng.choice(['rfh', 'rhp', 'up'])
            opt_, d_ = ('rfh', b_) if okind == 'rfh' else ('rhp:' + size_, b_[:5] + junk_field(rng) + b_[13:]) if okind == 'rhp' else ('up:' + size_, b_[:5] + b_[13:])
            mem_ = rng.choice(['none', str(need_), str(need_ + 1), str(max(s_['dict'], 4096)), str(1 << 40)])
            wr_ = rng.choice(['all', '1', '3,1', '4095,2', '1000'])
            if rng.chance(1, 2):
                line_ = 'lzma_dec opt=%s mem=%s in=%s rd=%s wr=%s' % (opt_, mem_, hx(d_), rng.choice(['all', '1', '7,3', 'std:buf:%d' % rng.range(1, 40)]), wr_)
                cross.append({'line': line_, 'meta': light(s_), 'meta_full': s_, 'cross': 'oneshot'})
            else:
                lens_ = chunkings(rng, len(d_), rng.choice(['whole', 'random', 'single', 'early', 'bytes' if len(d_) < 300 else 'random']))
                while len(lens_) > 1 and lens_[0] < 18: lens_ = [lens_[0] + lens_[1]] + lens_[2:]      # nothing stays staged with the header (see C15)
                line_ = 'stream opt=%s mem=%s allow=%d calls=%s wr=%s' % (opt_, mem_, rng.below(2), stream_calls(d_, lens_, rng=rng), wr_)
                cross.append({'line': line_, 'meta': light(s_), 'meta_full': s_, 'cross': 'stream'})
            ck.count('cross_' + okind)
    run_both(ck, cross)
    for c in cross:
        ck.note_case(c['line'], True)
        def oracle_x(c):
            exp = c['meta_full']['out']; r = c['r']
            if c['cross'] == 'oneshot':
                return lzma_oracle_exact(c)
            calls = r.get('res', '').split(';')
            if any('panic' in x for x in calls): return 'streaming decoder panicked on a well-formed stream'
            if calls[-1] != 'x:ok' or any(x.startswith('W:err') for x in calls): return 'well-formed stream rejected by the streaming decoder under this configuration (%s)' % ';'.join(x for x in calls if 'err' in x)[:80]
            if unhx(r.get('out', '-')) != exp: return 'streaming output differs from the bytes the format defines under this configuration'
            return None
        judge(ck, c, ['verdict', 'out'] if c['cross'] == 'oneshot' else ['res', 'out'], oracle_x, 'both')
    run_both(ck, cases)
    for c in cases:
        nontrivial = any(c['meta']['kinds'].get(k, 0) for k in 'MSR')
        ck.note_case(c['line'], nontrivial)
        if 'raw_expect' in c:
            def oracle(c):
                parts = c['r'].get('res', '').split(';')
                if len(parts) < 2 or not parts[1].startswith('d:ok:'):
                    return 'raw LzmaDecoder rejected a well-formed payload: ' + c['r'].get('res', '')[:80]
                if unhx(parts[1].split(':')[2]) != c['raw_expect']:
                    return 'raw LzmaDecoder output differs from the bytes the format defines'
                return None
            judge(ck, c, ['res'], oracle, 'model_ok')
        else:
            judge(ck, c, ['verdict', 'out', 'pos', 'fl'], lzma_oracle_exact, 'model_ok')

# ------------------------------------------------------------------ LZMA2 chunk sequences
def exact_size_syms(pb, size):
    """append symbols to ProgBuilder pb producing exactly `size` more bytes (needs pb.n >= 1 or starts with a literal)"""
    left = size
    if pb.maxd() == 0:
        pb.lit(0x41); left -= 1
    while left > 0:
        if left == 1:
            pb.lit(0x42); left -= 1
        else:
            l = min(273, left)
            if left - l == 1 and l > 2:
                l -= 1
            pb.match(1, l); left -= l

def gen_chunk_seq(rng, nchunks, big_size=None):
    """a well-formed chunk sequence in the syntax of modelrun ref_lzma2; returns (text, stats)"""
    chunks, stats = [], {}
    pb = ProgBuilder(None)
    need_props = True          # liblzma rule: after a dictionary reset the next LZMA chunk carries properties
    first = True
    have_props = False
    for k in range(nchunks):
        kind = rng.below(10)
        if first:
            kind = rng.choice([0, 9])           # must reset the dictionary
        if big_size and k == nchunks - 1:
            kind = 9                             # the chunk of the requested exact size is a compressed one
        if kind <= 2:                            # uncompressed
            rd = first or rng.chance(1, 4)
            n = rng.choice([1, 2, 3, 17, 300]) if rng.chance(4, 5) else rng.choice([65535, 65536])
            data = rng.bytes(n) if n < 1000 else bytes([rng.below(256)]) * n
            if rd:
                pb.n = 0; need_props = True
            chunks.append('U%d:%s' % (1 if rd else 2, hx(data)))
            pb.n += n
            stats['U%d' % (1 if rd else 2)] = stats.get('U%d' % (1 if rd else 2), 0) + 1
        else:
            if first or (need_props and rng.chance(1, 3)):
                cls = 3
            elif need_props or not have_props:
                cls = rng.choice([2, 3])
            else:
                cls = rng.choice([0, 0, 1, 2, 3])
            if cls == 3:
                pb.n = 0
            if cls >= 1:
                pb.reps = [1, 1, 1, 1]
            props = '-'
            if cls >= 2:
                lc, lp, pbits = rand_props(rng, lzma2=True)
                props = '%d,%d,%d' % (lc, lp, pbits); have_props = True; need_props = False
            pb.syms = []
            if big_size and k == nchunks - 1:
                exact_size_syms(pb, big_size)
            else:
                for _ in range(rng.range(1, 25)):
                    pb.random_sym(rng, rng.choice([1, 3]))
            chunks.append('Z%d:%s:0:%s' % (cls, props, pb.text()))
            stats['Z%d' % cls] = stats.get('Z%d' % cls, 0) + 1
        first = False
    return '/'.join(chunks), stats

_MAXPACK = {}
def max_packed_stream(rng):
    """a single-chunk LZMA2 stream whose compressed-size field is 0xFFFF (payload of exactly 65536 bytes).  The payload is
    produced by the crate's own literal-only encoder (the model's reference encoder is quadratic in the history and far too slow
    for 65 000 symbols); the expected output is the encoder's input, and the model decodes the stream like any other input.
    Length found by bisection; cached per run.  -> dict(bytes, out, stats, big, ref) or None"""
    if 'v' in _MAXPACK: return _MAXPACK['v']
    data = Rng(12345).bytes(66000)
    def payload(n):
        r = parse(run_impl(['lzma_enc opt=wh:%d in=%s' % (n, hx(data[:n]))])[0])
        if r.get('verdict') != 'ok': return None
        return unhx(r['out'])[13:]
    lo, hi, best = 64000, 65536, None
    while lo <= hi:
        mid = (lo + hi) // 2
        pl = payload(mid)
        if pl is None: break
        if len(pl) == 65536: best = (mid, pl); break
        if len(pl) < 65536: lo = mid + 1
        else: hi = mid - 1
    if best is None:
        for n in range(max(64000, lo - 8), min(65536, lo + 8) + 1):
            pl = payload(n)
            if pl is not None and len(pl) == 65536: best = (n, pl); break
    if best is None:
        _MAXPACK['v'] = None; return None
    n, pl = best
    b = bytes([0xE0 | ((n - 1) >> 16)]) + struct.pack('>H', (n - 1) & 0xFFFF) + struct.pack('>H', 0xFFFF) + bytes([0x5D]) + pl + b'\x00'
    _MAXPACK['v'] = {'bytes': b, 'out': data[:n], 'stats': {'Z3': 1}, 'big': None, 'ref': 'single chunk with compressed-size field 0xFFFF (payload from the crate\'s encoder)'}
    return _MAXPACK['v']

def gen_l2_badcopy_streams(rng, count):
    """LZMA2 streams (malformed on purpose) in which a dictionary reset happens in MID-STREAM - by an uncompressed chunk (0x01) or
    by a compressed one - and a later chunk without dictionary reset copies from before that reset; the chunk declares room for
    the whole copy, so a decoder that performs the copy finishes successfully.  -> list of bytes"""
    reqs, metas = [], []
    for k in range(count):
        lc, lp, pb3 = rand_props(rng, lzma2=True)
        pre0 = rng.bytes(rng.range(5, 60)); pre = rng.bytes(rng.range(1, 40))
        p2 = ProgBuilder(None); p2.n = len(pre)
        for _ in range(rng.range(0, 12)): p2.random_sym(rng, 2)
        blen = rng.choice([2, 3, pick_len(rng)])
        p2.syms.append('M%d,%d' % (p2.n + rng.range(1, len(pre0)), blen))
        first = rng.choice(['U1:%s' % hx(pre0), 'Z3:%d,%d,%d:0:%s' % (lc, lp, pb3, '.'.join('L%d' % x for x in pre0))])
        mid = rng.choice(['U1:%s' % hx(pre), 'U1:%s' % hx(pre), 'Z3:%d,%d,%d:0:%s' % (lc, lp, pb3, '.'.join('L%d' % x for x in pre))])
        reqs.append('ref_lzma2 lenient=1 chunks=%s/%s/Z2:%d,%d,%d:0:%s' % (first, mid, lc, lp, pb3, p2.text()))
        metas.append((blen, [i for i, c in enumerate((first, mid)) if c[0] == 'Z']))
    out = []
    for enc, (blen, zs) in zip(ref_encode(reqs), metas):
        if enc is None: raise InfraError('lenient serialiser rejected a bad-copy stream')
        b = enc[0]
        def set_unpacked(b, w, un):
            return b[:w['off']] + bytes([(w['control'] & 0xE0) | ((un - 1) >> 16)]) + struct.pack('>H', (un - 1) & 0xFFFF) + b[w['off'] + 3:]
        for i in zs:                                   # the lenient serialiser adds one byte to every compressed chunk: take it back from the good ones
            w = walk_lzma2(b)[i]; b = set_unpacked(b, w, w['unpacked'] - 1)
        w = [x for x in walk_lzma2(b) if x['kind'] == 'lzma'][-1]
        b = set_unpacked(b, w, w['unpacked'] + blen - 1)   # room for the whole copy
        out.append(b)
    return out

def gen_l2_stale_rep_streams(rng, count):
    """LZMA2 streams (malformed on purpose): a compressed chunk ending in a match of distance D, then an uncompressed chunk that
    RESETS THE DICTIONARY and is shorter than D, then a compressed chunk WITHOUT state reset (control 0x80) whose first symbol is a
    literal (a matched literal: its match byte lies before the reset), a short rep or a rep0 copy.  -> list of bytes"""
    reqs = []
    for k in range(count):
        lc, lp, pb3 = rand_props(rng, lzma2=True)
        nlit = rng.range(8, 60)
        D = rng.range(2, nlit)
        mid = rng.bytes(rng.range(1, D - 1))
        third = ['L%d' % rng.below(256), 'S', 'R0,%d' % rng.range(2, 9)][k % 3]
        if rng.chance(1, 2): third += '.L%d' % rng.below(256)
        reqs.append('ref_lzma2 lenient=1 chunks=Z3:%d,%d,%d:0:%s.M%d,%d/U1:%s/Z0:-:0:%s' % (lc, lp, pb3, '.'.join('L%d' % rng.below(256) for _ in range(nlit)), D, rng.range(2, 12), hx(mid), third))
    out = []
    for e in ref_encode(reqs):
        if e is None: raise InfraError('lenient serialiser rejected a stale-rep stream')
        b = e[0]
        w = walk_lzma2(b)[0]             # the lenient serialiser adds one byte to every compressed chunk: take it back from the good first one
        un = w['unpacked'] - 1
        out.append(b[:w['off']] + bytes([(w['control'] & 0xE0) | ((un - 1) >> 16)]) + struct.pack('>H', (un - 1) & 0xFFFF) + b[w['off'] + 3:])
    return out

def gen_l2_props_sweep(rng, transitions=40):
    """well-formed LZMA2 streams covering EVERY legal properties triple (lc + lp <= 4, pb <= 4: 75 of them) as the first chunk's
    properties, and property changes between chunks - in particular pairs where a careless size comparison (lc+lp against lc+pb
    and the like) would wrongly reuse a table"""
    triples = [(lc, lp, pb) for lc in range(5) for lp in range(5 - lc) for pb in range(5)]
    def prog():
        pb = ProgBuilder(None)
        for _ in range(rng.range(2, 12)): pb.random_sym(rng, 2)
        return pb
    reqs = []
    for (lc, lp, pb) in triples:
        reqs.append('ref_lzma2 chunks=Z3:%d,%d,%d:0:%s' % (lc, lp, pb, prog().text()))
    pairs = [(a, b) for a in triples for b in triples if a != b and (a[0] + a[1] == b[0] + b[2] or a[0] + a[2] == b[0] + b[1] or a[0] + a[1] != b[0] + b[1])]
    for _ in range(transitions):
        a, b = rng.choice(pairs)
        p1 = prog(); p2 = ProgBuilder(None); cls = rng.choice([2, 3])
        if cls == 2: p2.n = p1.n
        for _ in range(rng.range(2, 12)): p2.random_sym(rng, 2)
        reqs.append('ref_lzma2 chunks=Z3:%d,%d,%d:0:%s/Z%d:%d,%d,%d:0:%s' % (a + (p1.text(),) + (cls,) + b + (p2.text(),)))
    out = []
    for enc, rq in zip(ref_encode(reqs), reqs):
        if enc is None: raise InfraError('reference serialiser rejected a properties-sweep stream: ' + rq[:200])
        out.append({'bytes': enc[0], 'out': enc[1], 'stats': {'Zprops': 1}, 'big': None, 'ref': rq[:300]})
    return out

def gen_lzma2_streams(rng, count, big_sizes=()):
    reqs, metas = [], []
    bigs = list(big_sizes)
    for k in range(count):
        big = bigs.pop() if bigs and k % 7 == 3 else None
        text, stats = gen_chunk_seq(rng, rng.range(1, 6), big)
        reqs.append('ref_lzma2 chunks=' + text)
        metas.append({'stats': stats, 'big': big, 'ref': ('ref_lzma2 chunks=' + text)[:500]})
    out = []
    for enc, meta, rq in zip(ref_encode(reqs), metas, reqs):
        if enc is None:
            raise InfraError('reference LZMA2 serialiser rejected a generated sequence: ' + rq[:300])
        meta = dict(meta); meta['bytes'], meta['out'] = enc
        out.append(meta)
    return out

def walk_lzma2(b):
    """parse the framing of a valid LZMA2 stream -> list of dicts(kind, off, control, hdr_len, payload_len, unpacked, props_off)"""
    res, p = [], 0
    while True:
        c = b[p]
        if c == 0:
            res.append({'kind': 'end', 'off': p}); return res
        if c in (1, 2):
            n = struct.unpack('>H', b[p + 1:p + 3])[0] + 1
            res.append({'kind': 'raw', 'off': p, 'hdr_len': 3, 'payload_len': n}); p += 3 + n
        else:
            un = ((c & 0x1F) << 16 | struct.unpack('>H', b[p + 1:p + 3])[0]) + 1
            pk = struct.unpack('>H', b[p + 3:p + 5])[0] + 1
            hp = 6 if c >= 0xC0 else 5
            res.append({'kind': 'lzma', 'off': p, 'hdr_len': hp, 'payload_len': pk, 'unpacked': un, 'control': c}); p += hp + pk

def exact_oracle(expected):
    def oracle(c):
        r = c['r']
        if r.get('verdict') != 'ok':
            return 'well-formed input rejected (%s/%s) by the implementation' % (r.get('verdict'), r.get('why'))
        if unhx(r.get('out', '-')) != expected:
            return 'implementation output differs from the bytes the format defines'
        return None
    return oracle

@prop('C02', 'LZMA2 chunk sequences (uncompressed/compressed, every reset class, property changes, matches reaching into earlier chunks, chunk sizes 1, 64 KiB, k*64 KiB) serialised by the Coq reference serialiser ser2; decoded through lzma2_decompress, the raw Lzma2Decoder and wrapped in .xz; non-trivial = at least one compressed chunk')
def run_C02(ck):
    rng = Rng(ck.seed).fork('C02')
    n = 250 if ck.tier == 'quick' else 2500
    bigs = [65536, 131072, 65537, 196608, 262144, 2097152] if ck.tier == 'quick' else [65536 * k for k in range(1, 33)] + [65535, 65537, 2097152]
    streams = gen_lzma2_streams(rng, n, bigs)
    mp = max_packed_stream(rng)
    if mp: streams.append(mp); ck.count('chunk_with_packed_size_0xFFFF')
    sweep = gen_l2_props_sweep(rng, 40 if ck.tier == 'quick' else 300)
    streams += sweep; ck.count('props_sweep_streams', len(sweep))
    # several hundred chunks in one stream (any per-stream chunk counter or table that grows per chunk)
    many = []
    pbm = ProgBuilder(None)
    for k in range(300 if ck.tier == 'quick' else 700):
        if k % 7 == 3:
            d_ = rng.bytes(rng.range(1, 5)); many.append('U2:%s' % hx(d_)); pbm.n += len(d_)
        else:
            cls_ = 3 if k == 0 else rng.choice([0, 0, 1])
            if cls_ >= 1: pbm.reps = [1, 1, 1, 1]          # a state reset zeroes the repeat distances: build the program accordingly
            pbm.syms = []
            for _ in range(rng.range(1, 3)): pbm.random_sym(rng, 2)
            many.append('Z%d:%s:0:%s' % (cls_, '3,0,2' if k == 0 else '-', pbm.text()))
    e_ = ref_encode(['ref_lzma2 chunks=' + '/'.join(many)])[0]
    if e_ is not None:
        streams.append({'bytes': e_[0], 'out': e_[1], 'stats': {'many_chunks': len(many)}, 'big': None, 'ref': 'stream of %d tiny chunks' % len(many)})
    # tiny continuation chunks: after a chunk that trained the model, a chunk of one or two cheap symbols has a payload of exactly
    # the five coder init bytes (compressed-size field 4) - the smallest legal compressed chunk
    treqs = []
    for k in range(10 if ck.tier == 'quick' else 60):
        lc, lp, pbits = rand_props(rng, lzma2=True)
        x = rng.below(256)
        first = 'Z3:%d,%d,%d:0:%s' % (lc, lp, pbits, '.'.join(['L%d' % x] * rng.range(40, 400) if rng.chance(1, 2) else ['L%d' % x, 'M1,%d' % rng.range(20, 273)]))
        tail = rng.choice(['S', 'S.S', 'R0,2', 'L%d' % x, '.'.join(['L%d' % x] * rng.range(1, 20)), 'M1,%d' % rng.range(2, 9)])
        treqs.append('ref_lzma2 chunks=%s/Z%d:-:0:%s' % (first, rng.choice([0, 0, 1]), tail))
    for enc, rq in zip(ref_encode(treqs), treqs):
        if enc is None: continue
        pl = [w['payload_len'] for w in walk_lzma2(enc[0]) if w['kind'] == 'lzma'][-1]
        streams.append({'bytes': enc[0], 'out': enc[1], 'stats': {'Z3': 1, 'Ztiny': 1}, 'big': None, 'ref': rq[:300]})
        ck.count('tiny_chunk_payload_%d' % pl if pl <= 6 else 'tiny_chunk_payload_more')
    cases = []
    for s in streams:
        for st, v in s['stats'].items(): ck.count('chunk_' + st, v)
        if s['big']: ck.count('big_chunk_%d' % s['big'])
        entry = rng.below(3)
        trail = rng.bytes(rng.range(0, 5)) if entry != 2 else b''
        rd = rng.choice(['all', '1', '5,2', 'std:buf:%d' % rng.range(1, 50)])
        if entry == 0:
            line = 'lzma2_dec in=%s rd=%s' % (hx(s['bytes'] + trail), rd)
            if rng.chance(1, 3): line += ' wr=%s' % rng.choice(['1', '3,1', '7', '1000,1'])
            fields = ['verdict', 'out', 'pos', 'fl']
            orc = exact_oracle(s['out'])
        elif entry == 1:
            line = 'raw_lzma2 ctor=%s ops=d:%s rd=%s' % (rng.choice(['new', 'default']), hx(s['bytes'] + trail), rd)
            fields = ['res']
            exp = s['out']
            def orc(c, exp=exp):
                parts = c['r'].get('res', '').split(';')
                if len(parts) < 2 or not parts[1].startswith('d:ok:'): return 'raw Lzma2Decoder rejected a well-formed stream'
                if unhx(parts[1].split(':')[2]) != exp: return 'raw Lzma2Decoder output differs from the format-defined bytes'
                return None
        else:
            blk = XzBlock(s['bytes'], s['out'])
            line = 'xz_dec in=%s rd=%s' % (hx(xz_file([blk], check=rng.choice([0, 1, 4]))), rd)
            fields = ['verdict', 'out', 'pos']
            orc = exact_oracle(s['out'])
        cases.append({'line': line, 'meta': light(s), 'fields': fields, 'oracle': orc, 'nontrivial': any(k.startswith('Z') for k in s['stats'])})
        ck.count('entry_%d' % entry)
    run_both(ck, cases)
    for c in cases:
        ck.note_case(c['line'], c['nontrivial'])
        judge(ck, c, c['fields'], c['oracle'], 'model_ok')

# ------------------------------------------------------------------ XZ files
def gen_xz_files(rng, count, lz2_pool, checks=(0, 1, 4)):
    """well-formed .xz files built from a pool of LZMA2 streams -> list of dict(bytes, out, blocks, check, desc)"""
    files = []
    for k in range(count):
        nb = rng.choice([0, 1, 1, 1, 2, 3, 4])
        check = rng.choice(list(checks))
        blocks = []
        all_empty = nb > 0 and rng.chance(1, 8)            # files whose blocks are all empty (LZMA2 stream 00)
        for _ in range(nb):
            s = rng.choice(lz2_pool)
            if all_empty or rng.chance(1, 8):
                s = {'bytes': b'\x00', 'out': b''}              # an empty block: legal, with or without the optional size fields (unpacked size 0)
            width = rng.choice([None, None, None, 2, 3, 5, 9])
            hp = rng.choice([0, 0, 0, 1, 2, 7, 40, 200, 'max']) if width is None else rng.choice([0, 1, 1, 40, 'max'])
            wp, wu = rng.chance(1, 2), rng.chance(1, 2)
            blk = None
            # 'max': the largest padding that fits, i.e. the header size byte 0xFF (1024-byte header)
            dprop = bytes([rng.choice([0, 1, 22, 37, 38, 39, 40, 40, rng.range(0, 40)])])      # LZMA2 dictionary-size byte: 0 .. 40 are all legal
            for hp_ in ([253, 252, 251, 250, 249, 248, 247, 246, 245, 244, 243] if hp == 'max' else [hp]):
                try:
                    blk = XzBlock(s['bytes'], s['out'], with_packed=wp, with_unpacked=wu, header_pad=hp_, mb_width=width, props=dprop)
                    xz_block_bytes(blk, check)
                    break
                except ValueError:
                    blk = None
            if blk is None:
                blk = XzBlock(s['bytes'], s['out'])
            blocks.append(blk)
        mbw = rng.choice([None, None, 3, 9])
        files.append({'bytes': xz_file(blocks, check, mb_width=mbw), 'out': b''.join(b.content for b in blocks),
                      'blocks': blocks, 'check': check, 'mbw': mbw,
                      'desc': {'nblocks': nb, 'check': check, 'header_pads': [b.header_pad for b in blocks], 'mb_width': [b.mb_width for b in blocks]}})
    return files

def blocks_with_header_size_byte(blk, check, targets=(0x3F, 0x40, 0x41, 0x7F, 0x80, 0xBF, 0xC0, 0xFF)):
    """copies of a block whose header SIZE BYTE is exactly each target value (header of (t+1)*4 bytes, zero padded)"""
    out = []
    for t in targets:
        for pad in range(0, 256):
            try:
                b2 = XzBlock(blk.payload, blk.content, with_packed=blk.with_packed, with_unpacked=blk.with_unpacked, header_pad=pad, mb_width=blk.mb_width, props=blk.props)
                if xz_block_bytes(b2, check)[0][0] == t: out.append((t, b2)); break
            except ValueError:
                break
    return out


@prop('C03', '.xz files with 0-4 blocks x check {None, CRC32, CRC64} x optional size fields x header padding (header sizes up to 1024) x payload length mod 4 x multibyte widths 1-9, payloads from the reference LZMA2 serialiser, plus the files under /repo/tests/files; non-trivial = at least one block')
def run_C03(ck):
    rng = Rng(ck.seed).fork('C03')
    pool = gen_lzma2_streams(rng, 60 if ck.tier == 'quick' else 300)
    files = gen_xz_files(rng, 300 if ck.tier == 'quick' else 3000, pool)
    cases = []
    for f in files:
        rd = rng.choice(['all', 'all', '1', '7,3', 'std:buf:%d' % rng.range(1, 64)])
        wr_ = ' wr=%s' % rng.choice(['1', '3,1', '1000,7']) if rng.chance(1, 3) else ''        # reader and sink policies crossed
        cases.append({'line': 'xz_dec in=%s rd=%s%s' % (hx(f['bytes']), rd, wr_), 'meta': f['desc'], 'oracle': exact_oracle(f['out']), 'nontrivial': f['desc']['nblocks'] > 0})
        ck.count('blocks_%d' % f['desc']['nblocks']); ck.count('check_%d' % f['check'])
        for hp in f['desc']['header_pads']: ck.count('header_pad_%d' % hp)
    for name in sorted(os.listdir('/repo/tests/files')):
        if name.endswith('.xz'):
            raw = open('/repo/tests/files/' + name, 'rb').read()
            exp = open('/repo/tests/files/' + name[:-3], 'rb').read()
            cases.append({'line': 'xz_dec in=%s' % hx(raw), 'meta': {'file': name}, 'oracle': exact_oracle(exp), 'nontrivial': True})
            ck.count('repo_files')
    # a block whose LZMA2 chunk has the largest legal compressed size (field 0xFFFF, 65536 payload bytes)
    mp = max_packed_stream(rng)
    if mp:
        for ck_, wp_ in ((1, True), (4, False)):
            blk = XzBlock(mp['bytes'], mp['out'], with_packed=wp_, with_unpacked=not wp_)
            cases.append({'line': 'xz_dec in=%s' % hx(xz_file([blk], ck_)), 'meta': {'max_packed_chunk': True, 'check': ck_}, 'oracle': exact_oracle(mp['out']), 'nontrivial': True})
            ck.count('block_with_packed_size_0xFFFF_chunk')
    # header size bytes at and around 0x40 / 0x80 / 0xC0 / 0xFF exactly (a shift or cast on the byte itself loses the top bits)
    f0 = next((f for f in files if f['blocks']), None)
    if f0:
        for t_, b2_ in blocks_with_header_size_byte(f0['blocks'][0], f0['check']):
            cases.append({'line': 'xz_dec in=%s' % hx(xz_file([b2_] + f0['blocks'][1:], f0['check'])), 'meta': {'header_size_byte': t_}, 'oracle': exact_oracle(f0['out']), 'nontrivial': True})
            ck.count('header_size_byte_exact')
    # a file with 130-300 blocks: the index's record count needs a two-byte multibyte integer, and whatever grows per block grows
    tiny_pool = [p for p in pool if len(p['bytes']) < 40] or pool[:3]
    for nb_ in ([130] if ck.tier == 'quick' else [127, 128, 129, 300]):
        blks = [XzBlock(b'\x00', b'', with_unpacked=rng.chance(1, 2)) if rng.chance(1, 3) else
                (lambda s_: XzBlock(s_['bytes'], s_['out'], with_packed=rng.chance(1, 3), with_unpacked=rng.chance(1, 3)))(rng.choice(tiny_pool)) for _ in range(nb_)]
        ck_ = rng.choice([0, 1, 4])
        cases.append({'line': 'xz_dec in=%s rd=%s' % (hx(xz_file(blks, ck_)), rng.choice(['all', '64'])), 'meta': {'nblocks': nb_, 'check': ck_},
                      'oracle': exact_oracle(b''.join(b_.content for b_ in blks)), 'nontrivial': True})
        ck.count('many_blocks_%d' % nb_)
    # several LZMA2 filters in one block are decoded as a chain (leniency of lzma-rs, reproduced by the model)
    def lzma2_raw(b):
        out, first = b'', True
        for i in range(0, len(b), 65536):
            piece = b[i:i + 65536]
            out += bytes([1 if first else 2]) + struct.pack('>H', len(piece) - 1) + piece; first = False
        return out + b'\x00'
    for k in range(12 if ck.tier == 'quick' else 80):
        s = rng.choice(pool)
        nf = rng.range(2, 4)
        payload = s['bytes']
        for _ in range(nf - 1): payload = lzma2_raw(payload)
        blk = XzBlock(payload, s['out'], nfilters=nf, with_packed=rng.chance(1, 2), with_unpacked=rng.chance(1, 2))
        ck_ = rng.choice([0, 1, 4])
        cases.append({'line': 'xz_dec in=%s' % hx(xz_file([blk], ck_)), 'meta': {'filters': nf, 'check': ck_}, 'oracle': exact_oracle(s['out']), 'nontrivial': True})
        ck.count('chained_filters_%d' % nf)
    for nf in (2, 3):          # chained filters around an EMPTY block, with each check type
        payload = b'\x00'
        for _ in range(nf - 1): payload = lzma2_raw(payload)
        for ck_ in (0, 1, 4):
            blk = XzBlock(payload, b'', nfilters=nf, with_unpacked=rng.chance(1, 2))
            cases.append({'line': 'xz_dec in=%s' % hx(xz_file([blk, blk], ck_)), 'meta': {'filters': nf, 'check': ck_, 'empty': True}, 'oracle': exact_oracle(b''), 'nontrivial': True})
            ck.count('chained_filters_empty')
    run_both(ck, cases)
    for c in cases:
        ck.note_case(c['line'], c['nontrivial'])
        judge(ck, c, ['verdict', 'out', 'pos'], c['oracle'], 'model_ok')

# ------------------------------------------------------------------ C06: xz mutants
def xz_mutants(rng, f, per_file):
    """(description, bytes) mutants of a well-formed file that each violate exactly one integrity / size field"""
    blocks, check, out = f['blocks'], f['check'], []
    nb = len(blocks)
    def add(desc, **kw):
        try:
            out.append((desc, xz_file(blocks, check, mb_width=f['mbw'], **kw)))
        except ValueError:
            pass
    add('header magic', tweak={'magic': bytes([0xFD, 0x37, 0x7A, 0x58, 0x5A, 0x01])})
    add('footer magic', tweak={'footer_magic': b'YY'})
    add('header crc', tweak={'header_crc': crc32(bytes([0, check])) ^ (1 << rng.below(32))})
    add('footer crc', tweak={'footer_crc': rng.below(1 << 32)})
    add('index crc', tweak={'index_crc': rng.below(1 << 32)})
    others = [c for c in (0, 1, 4) if c != check]
    add('footer flags differ', tweak={'fcheck_byte': rng.choice(others)})
    # header and footer flags that differ only in bits a sloppy parser might mask off, and reserved bits set on one side only
    hi = rng.choice([0x10, 0x20, 0x40, 0x80, 0xF0])
    add('footer flags differ in the high nibble', tweak={'fcheck_byte': check | hi})
    add('header flags differ in the high nibble', tweak={'check_byte': check | hi, 'fcheck_byte': check})
    add('footer first flag byte differs', tweak={'fflag0': rng.choice([1, 2, 0x80, 0xFF])})
    add('header first flag byte differs', tweak={'flag0': rng.choice([1, 2, 0x80, 0xFF]), 'fflag0': 0})
    real_bs = None
    for delta in (1, -1, 1 << 30, 1 << 31, (1 << 32) - 1):
        add('backward size %+d' % delta, tweak={'backward_size': (_index_words(f) - 1 + delta) & 0xFFFFFFFF})
    add('nrecords +1', tweak={'nrecords': nb + 1})
    if nb:
        add('nrecords -1', tweak={'nrecords': nb - 1})
        i = rng.below(nb)
        add('record unpadded +1', tweak={'records': lambda rs, i=i: [(u + (1 if j == i else 0), v) for j, (u, v) in enumerate(rs)]})
        add('record unpacked +1', tweak={'records': lambda rs, i=i: [(u, v + (1 if j == i else 0)) for j, (u, v) in enumerate(rs)]})
        add('record unpacked +2^32', tweak={'records': lambda rs, i=i: [(u, v + ((1 << 32) if j == i else 0)) for j, (u, v) in enumerate(rs)]})
        add('block header crc', block_tweaks={i: {'header_crc': rng.below(1 << 32)}})
        if check:
            add('block check', block_tweaks={i: {'check': rng.below(1 << 32)}})
        add('block padding nonzero', block_tweaks={i: {'block_padding': lambda p: (b'\x01' + p[1:]) if p else p}})
        add('header padding nonzero', block_tweaks={i: {'header_padding': lambda p: p[:-1] + b'\x01'}})
        b0 = blocks[i]
        # off-by-one values and the special values a narrowing cast, a niche (NonZero) or a sign bit could swallow
        for fld, d in (('packed', 1), ('packed', -1), ('unpacked', 1), ('unpacked', -1),
                       ('packed', 'zero'), ('unpacked', 'zero'), ('packed', 1 << 32), ('unpacked', 1 << 32),
                       ('packed', 1 << 62), ('unpacked', 1 << 62), ('packed', 256), ('unpacked', 65536)):
            nb2 = list(blocks)
            kw = dict(with_packed=b0.with_packed or fld == 'packed', with_unpacked=b0.with_unpacked or fld == 'unpacked',
                      header_pad=b0.header_pad, mb_width=b0.mb_width)
            true = len(b0.payload) if fld == 'packed' else len(b0.content)
            val = 0 if d == 'zero' else max(0, true + d)
            if val == true: continue
            if fld == 'packed': kw['packed_override'] = val
            else: kw['unpacked_override'] = val
            nb2[i] = XzBlock(b0.payload, b0.content, **kw)
            try:
                out.append(('declared %s size %s' % (fld, d if d == 'zero' else '%+d' % d), xz_file(nb2, check, mb_width=f['mbw'])))
            except ValueError:
                pass
    add('index padding nonzero', tweak={'index_padding': lambda p: (p[:-1] + b'\x01') if p else p})
    add('trailing byte', tweak={'trailer': bytes([rng.below(256)])})
    # keep only mutants that really differ from the original
    out = [(d, m) for d, m in out if m != f['bytes']]
    rng_pick = out if len(out) <= per_file else [out[rng.below(len(out))] for _ in range(per_file)]
    return rng_pick

def _index_words(f):
    idx = b'\x00' + multibyte(len(f['blocks']), f['mbw'])
    for b in f['blocks']:
        _, u, v = xz_block_bytes(b, f['check'])
        idx += multibyte(u, f['mbw']) + multibyte(v, f['mbw'])
    idx += bytes((-len(idx)) % 4)
    return (len(idx) + 4) // 4

@prop('C06', 'well-formed .xz files x {every integrity / size field replaced with enclosing CRCs recomputed; random and exhaustive single-bit flips; truncation at every byte}; the implementation may report success only if the model does and the output equals the original; non-trivial = mutant differs from the original in a validated field',
      ['absence of CRC collisions under single-bit flips is tested on the generated files, not proved'])
def run_C06(ck):
    rng = Rng(ck.seed).fork('C06')
    pool = gen_lzma2_streams(rng, 30 if ck.tier == 'quick' else 100)
    pool = [p for p in pool if len(p['bytes']) < 4000]
    files = gen_xz_files(rng, 40 if ck.tier == 'quick' else 300, pool, checks=(1, 4, 1, 4, 0))
    cases = []
    def add(desc, mutant, f, crc_carrying):
        cases.append({'line': 'xz_dec in=%s' % hx(mutant), 'meta': {'mutation': desc, 'file': f['desc']}, 'orig_out': f['out'], 'crc': crc_carrying})
        ck.count('mut_' + desc.split(' +')[0].split(' -')[0][:28])
    for f in files:
        for desc, m in xz_mutants(rng, f, 40):
            add(desc, m, f, False)
        # an Index that is self-consistent (count, padding, CRC32, Backward Size all agree) but lists other records than the file has blocks
        for desc, fn in (('index lists one record fewer', lambda rs: rs[:-1]), ('index lists no record', lambda rs: []),
                         ('index lists one record more', lambda rs: rs + rs[-1:]), ('index lists the records in reverse', lambda rs: rs[::-1])):
            if f['desc']['nblocks'] == 0: break
            m = xz_file(f['blocks'], f['check'], mb_width=f['mbw'], tweak={'records': fn})
            if m != f['bytes']: add(desc, m, f, False)
        # junk between the LZMA2 end byte and the block padding, with the Compressed Size field, the Index and every CRC agreeing
        # with the longer block: the filter does not use the bytes the header promises
        if f['desc']['nblocks']:
            b0_ = f['blocks'][0]
            for junk_ in (b'\x00', b'\x00' * 4, b'\x5a\xa5\x01'):
                nb_ = [XzBlock(b0_.payload + junk_, b0_.content, with_packed=True, with_unpacked=b0_.with_unpacked, header_pad=min(b0_.header_pad, 200), mb_width=b0_.mb_width, props=b0_.props)] + f['blocks'][1:]
                try: add('junk after the LZMA2 end byte inside the declared compressed size', xz_file(nb_, f['check'], mb_width=f['mbw']), f, False)
                except ValueError: pass
        b = f['bytes']
        crc_carrying = f['check'] in (1, 4) and f['desc']['nblocks'] > 0
        nflips = 25 if ck.tier == 'quick' else 120
        for _ in range(nflips):
            pos = rng.below(len(b) * 8)
            m = bytearray(b); m[pos // 8] ^= 1 << (pos % 8)
            add('bitflip', bytes(m), f, f['check'] in (1, 4))
        for cut in range(len(b)) if len(b) < 200 or ck.tier != 'quick' else sorted(set(rng.below(len(b)) for _ in range(60)) | set(range(max(0, len(b) - 14), len(b)))):
            add('truncate', b[:cut], f, False)
    # chained LZMA2 filters (accepted by lzma-rs): corruption of the INNER stream is seen only by the later filter
    def lzma2_raw_wrap(b):
        out, first = b'', True
        for i in range(0, len(b), 65536):
            piece = b[i:i + 65536]
            out += bytes([1 if first else 2]) + struct.pack('>H', len(piece) - 1) + piece; first = False
        return out + b'\x00'
    for k in range(15 if ck.tier == 'quick' else 100):
        s_ = rng.choice(pool)
        inner = s_['bytes']
        kind = rng.below(3)
        bad = corrupt(rng, inner) if kind == 0 else inner[:rng.range(0, len(inner) - 1)] if kind == 1 else inner + bytes([rng.range(1, 255)])
        chk = rng.choice([1, 4])
        blk = XzBlock(lzma2_raw_wrap(bad), s_['out'], nfilters=2)
        f = {'out': s_['out'], 'desc': {'chained': True}, 'check': chk}
        add('chained inner %s' % ['corrupt', 'truncated', 'trailing'][kind], xz_file([blk], chk), f, False)
    # exhaustive bit flips of the two CRC-carrying sample files
    for name in ['block-check-crc32.txt.xz', 'hello.txt.xz'] if ck.tier == 'quick' else [n for n in sorted(os.listdir('/repo/tests/files')) if n.endswith('.xz') and os.path.getsize('/repo/tests/files/' + n) < 3000]:
        raw = open('/repo/tests/files/' + name, 'rb').read()
        exp = open('/repo/tests/files/' + name[:-3], 'rb').read()
        f = {'out': exp, 'desc': {'file': name}, 'check': 1}
        for pos in range(len(raw) * 8):
            m = bytearray(raw); m[pos // 8] ^= 1 << (pos % 8)
            add('bitflip-exhaustive', bytes(m), f, True)
    run_both(ck, cases)
    for c in cases:
        ck.note_case(c['line'])
        def oracle(c):
            r = c['r']
            if r.get('verdict') == 'panic': return 'implementation panicked on a corrupted file'
            if r.get('verdict') == 'ok':
                if c['m'].get('verdict') != 'ok' and c['meta']['mutation'] not in ('bitflip', 'bitflip-exhaustive'):
                    return 'implementation accepted a file whose %s is invalid' % c['meta']['mutation']
                if unhx(r.get('out', '-')) != c['orig_out'] and (c['crc'] or c['meta']['mutation'] not in ('bitflip', 'bitflip-exhaustive')):
                    return 'implementation accepted a corrupted file and delivered different output'
            return None
        judge(ck, c, ['verdict', 'out'], oracle, 'impl_ok')

# ------------------------------------------------------------------ C17: LZMA2 framing
@prop('C17', 'well-formed chunk sequences x each framing field set to a boundary-violating value at every chunk position (control 0x03-0x7F, property byte >= 225 or lc+lp > 4, packed size too small, unpacked size below what the payload produces with an overshooting match, end marker inside a chunk, truncated uncompressed chunk, missing end byte), raw and wrapped in .xz; non-trivial = all')
def run_C17(ck):
    rng = Rng(ck.seed).fork('C17')
    streams = gen_lzma2_streams(rng, 120 if ck.tier == 'quick' else 800)
    cases = []
    def lzma2_stored(b_):
        out_, first_ = b'', True
        for i_ in range(0, len(b_), 65536):
            piece_ = b_[i_:i_ + 65536]
            out_ += bytes([1 if first_ else 2]) + struct.pack('>H', len(piece_) - 1) + piece_; first_ = False
        return out_ + b'\x00'
    def add(desc, mutant, wrap):
        if wrap and rng.chance(1, 3) and len(mutant) < 60000:
            # the malformed stream is what the FIRST of two chained LZMA2 filters delivers to the second
            line = 'xz_dec in=%s' % hx(xz_file([XzBlock(lzma2_stored(mutant), b'', nfilters=2)], check=0))
            desc = desc + '_chained'
        elif wrap:
            line = 'xz_dec in=%s' % hx(xz_file([XzBlock(mutant, b'')], check=0))
        else:
            line = 'lzma2_dec in=%s rd=%s' % (hx(mutant), rng.choice(['all', '1', '4,9']))
        cases.append({'line': line, 'meta': {'mutation': desc}})
        ck.count('mut_' + desc)
    add('missing_end_byte', b'', True)          # the empty byte string is not an LZMA2 stream (also as the inner stream of a filter chain)
    cases.append({'line': 'xz_dec in=%s' % hx(xz_file([XzBlock(b'\x00', b'', nfilters=2)], check=1)), 'meta': {'mutation': 'missing_end_byte_chained_empty'}})
    cases.append({'line': 'xz_dec in=%s' % hx(xz_file([XzBlock(b'\x00', b'', nfilters=3)], check=4)), 'meta': {'mutation': 'missing_end_byte_chained_empty'}})
    for s in streams:
        b = s['bytes']
        fr = walk_lzma2(b)
        for ch in fr:
            wrap = rng.chance(1, 4)
            o = ch['off']
            if ch['kind'] == 'end':
                add('missing_end_byte', b[:o], wrap)
                add('control_03_7f_at_end', b[:o] + bytes([rng.range(3, 0x7F)]) + b[o + 1:], wrap)
                continue
            add('control_03_7f', b[:o] + bytes([rng.range(3, 0x7F)]) + b[o + 1:], wrap)
            if ch['kind'] == 'lzma' and (ch['control'] & 0x7F) >= 3:
                # the same chunk with only bit 7 of its control byte cleared: everything else stays consistent
                add('control_bit7_cleared', b[:o] + bytes([ch['control'] & 0x7F]) + b[o + 1:], wrap)
            add('truncated_in_chunk', b[:o + rng.range(1, ch['hdr_len'] + ch['payload_len'] - 1)], wrap)
            if ch['kind'] == 'raw':
                add('raw_chunk_short', b[:o + 3 + ch['payload_len'] - 1], wrap)
            else:
                if ch['control'] >= 0xC0:
                    add('props_ge_225', b[:o + 5] + bytes([rng.range(225, 255)]) + b[o + 6:], wrap)
                    if b[o + 5] + 225 < 256:
                        add('props_plus_225', b[:o + 5] + bytes([b[o + 5] + 225]) + b[o + 6:], wrap)     # the real byte modulo 225
                    if b[o + 5] == 0:
                        for bad_ in (0xFF, 0xE1, 0xF0):                                                    # a sentinel / mask could turn these into lc=lp=pb=0
                            add('props_invalid_for_000', b[:o + 5] + bytes([bad_]) + b[o + 6:], False)
                    bad = rng.choice([pb_ * 45 + lp_ * 9 + lc_ for pb_ in range(5) for lp_ in range(5) for lc_ in range(9) if lc_ + lp_ > 4])
                    add('props_lc_lp_gt_4', b[:o + 5] + bytes([bad]) + b[o + 6:], wrap)
                pk = ch['payload_len']
                if pk >= 2:
                    newpk = pk - 1
                    hdr = bytearray(b[o:o + ch['hdr_len']]); hdr[3:5] = struct.pack('>H', newpk - 1)
                    add('packed_too_small', b[:o] + bytes(hdr) + b[o + ch['hdr_len']:o + ch['hdr_len'] + newpk] + b[o + ch['hdr_len'] + pk:], wrap)
                    # the compressed-size field alone reduced to ANY smaller value (1 .. pk-1, often below the five coder
                    # init bytes), every other byte left in place (C17_short_packed_size_rejected)
                    m = rng.choice([1, 2, 3, 4, rng.range(1, pk - 1)]); m = min(m, pk - 1)
                    hdr2 = bytearray(b[o:o + ch['hdr_len']]); hdr2[3:5] = struct.pack('>H', m - 1)
                    add('packed_field_reduced', b[:o] + bytes(hdr2) + b[o + ch['hdr_len']:], wrap)
    # chunks whose payload is exactly the five coder init bytes (a short rep or two cost less than a byte), declaring 1..4
    treqs = []
    for k in range(12 if ck.tier == 'quick' else 60):
        lc, lp, pbits = rand_props(rng, lzma2=True)
        pre = rng.bytes(rng.range(1, 20))
        first = rng.choice(['U1:%s' % hx(pre), 'Z3:%d,%d,%d:0:%s' % (lc, lp, pbits, '.'.join('L%d' % x for x in pre))])
        cls = rng.choice([1, 2]) if first[0] == 'U' else rng.choice([0, 1, 2])
        props = '%d,%d,%d' % rand_props(rng, lzma2=True) if cls == 2 else ('-' if first[0] == 'Z' or cls != 2 else '-')
        if first[0] == 'U' and cls != 2: cls, props = 2, '%d,%d,%d' % (lc, lp, pbits)      # no properties known yet
        treqs.append('ref_lzma2 chunks=%s/Z%d:%s:0:%s' % (first, cls, props, rng.choice(['S', 'S.S', 'S'])))
    for enc in ref_encode(treqs):
        if enc is None: continue
        b = enc[0]
        ch = [x for x in walk_lzma2(b) if x['kind'] == 'lzma'][-1]
        if ch['payload_len'] != 5: continue
        for m in (1, 2, 3, 4):
            hdr2 = bytearray(b[ch['off']:ch['off'] + ch['hdr_len']]); hdr2[3:5] = struct.pack('>H', m - 1)
            add('packed_below_coder_init', b[:ch['off']] + bytes(hdr2) + b[ch['off'] + ch['hdr_len']:], False)
    # first chunk with properties lc=lp=pb=0 (byte 0x00), the byte replaced by values a sentinel or a mask could map back to 0
    preqs = []
    for k in range(6 if ck.tier == 'quick' else 30):
        pb = ProgBuilder(None)
        for _ in range(rng.range(1, 15)): pb.random_sym(rng, 2)
        preqs.append('ref_lzma2 chunks=Z3:0,0,0:0:%s' % pb.text())
    for enc in ref_encode(preqs):
        if enc is None: continue
        b = enc[0]
        for bad_ in (0xFF, 0xE1, 0xF0, 0x80 | 0x61):
            add('props_invalid_for_000', b[:5] + bytes([bad_]) + b[6:], False)
    # fully consistent big chunks whose control byte loses bit 7: 0xFF -> 0x7F (2 MiB band), 0xE1.. -> 0x61.. etc.
    breqs = []
    for size in ([rng.range(2031617, 2097152), rng.range(65537, 131072)] if ck.tier == 'quick' else
                 [rng.range(2031617, 2097152), 2097152, 2031617] + [rng.range(65537 + 65536 * k_, 65536 * (k_ + 2)) for k_ in range(0, 30, 3)]):
        pb = ProgBuilder(None)
        exact_size_syms(pb, size)
        lc, lp, pbits = rand_props(rng, lzma2=True)
        breqs.append('ref_lzma2 chunks=Z3:%d,%d,%d:0:%s' % (lc, lp, pbits, pb.text()))
    for enc in ref_encode(breqs):
        if enc is None: raise InfraError('reference serialiser rejected a big C17 chunk')
        b = enc[0]
        add('control_bit7_cleared_big', bytes([b[0] & 0x7F]) + b[1:], False)
        w_ = walk_lzma2(b)[0]
        for m_ in (w_['payload_len'] - 1, rng.range(1, w_['payload_len'] - 1)):
            add('packed_field_reduced_big', b[:3] + struct.pack('>H', m_ - 1) + b[5:], False)
    # a chunk whose compressed size is in the upper half of the 16-bit field (payload of 65536 bytes from the crate's encoder):
    # the field alone reduced, and the field reduced together with the payload
    mp = max_packed_stream(rng)
    if mp:
        b = mp['bytes']
        for newpk in (65535, 65532, 49152, 32769, 32768, 32767):
            add('packed_field_reduced_above_32k', b[:3] + struct.pack('>H', newpk - 1) + b[5:], False)
            add('packed_too_small_above_32k', b[:3] + struct.pack('>H', newpk - 1) + b[5:6] + b[6:6 + newpk] + b'\x00', newpk == 65535)
    # payload/size disagreements built from programs: overshooting match, marker inside the chunk
    reqs, metas = [], []
    for k in range(60 if ck.tier == 'quick' else 400):
        pb = ProgBuilder(None)
        for _ in range(rng.range(1, 12)): pb.random_sym(rng, 2)
        lc, lp, pbits = rand_props(rng, lzma2=True)
        if rng.chance(1, 2):
            pb.match(pick_dist(rng, pb.maxd()), rng.range(3, 273))      # last symbol is a match of length >= 3
            reqs.append('ref_lzma2 chunks=Z3:%d,%d,%d:0:%s' % (lc, lp, pbits, pb.text()))
            metas.append(('unpacked_too_small_overshoot', pb.n, rng.range(1, 2)))
        else:
            reqs.append('ref_lzma2 lenient=1 chunks=Z3:%d,%d,%d:0:%s' % (lc, lp, pbits, pb.text(True) + '.L1'))
            metas.append(('marker_inside_chunk', pb.n, 0))
    multi = []
    for k in range(40 if ck.tier == 'quick' else 300):
        pre = rng.bytes(rng.range(1, 60))
        pb = ProgBuilder(None)
        for _ in range(rng.range(1, 10)): pb.random_sym(rng, 2)
        # the declared size must fall STRICTLY INSIDE the final match (a size that lands on a symbol boundary is simply a shorter,
        # well-formed chunk followed by whatever the unused payload bytes happen to spell): final match longer than every d below
        last_len = rng.range(max(3, len(pre) + 2), 273)
        pb.match(pick_dist(rng, pb.maxd()), last_len)
        lc, lp, pbits = rand_props(rng, lzma2=True)
        cls = rng.choice([3, 3, 2])
        reqs.append('ref_lzma2 chunks=U1:%s/Z%d:%d,%d,%d:0:%s' % (hx(pre), cls, lc, lp, pbits, pb.text()))
        d = rng.choice([len(pre), len(pre), 1, 2])
        assert 1 <= d < last_len
        metas.append(('unpacked_too_small_in_later_chunk', pb.n, d, 3 + len(pre)))
    for enc, meta in zip(ref_encode(reqs), metas):
        if enc is None: raise InfraError('reference serialiser rejected a C17 program')
        if len(meta) == 4:
            desc, n, d, off = meta
            b = bytearray(enc[0]); un = n - d
            b[off] = (b[off] & 0xE0) | ((un - 1) >> 16); b[off + 1:off + 3] = struct.pack('>H', (un - 1) & 0xFFFF)
            add(desc, bytes(b), rng.chance(1, 4)); continue
        desc, n, d = meta
        b = bytearray(enc[0])
        if desc == 'unpacked_too_small_overshoot':
            un = n - d
            b[0] = (b[0] & 0xE0) | ((un - 1) >> 16); b[1:3] = struct.pack('>H', (un - 1) & 0xFFFF)
        else:
            un = n + 1        # the chunk declares one byte more than the payload produces before its end marker
            b[0] = (b[0] & 0xE0) | ((un - 1) >> 16); b[1:3] = struct.pack('>H', (un - 1) & 0xFFFF)
        add(desc, bytes(b), rng.chance(1, 4))
    run_both(ck, cases)
    for c in cases:
        ck.note_case(c['line'])
        def oracle(c):
            v = c['r'].get('verdict')
            if v != 'err': return 'malformed LZMA2 framing (%s) was not rejected with an error: %s' % (c['meta']['mutation'], v)
            return None
        judge(ck, c, ['verdict'], oracle, 'both', premise_guard=True)

# ------------------------------------------------------------------ C18: unsupported XZ features
@prop('C18', 'well-formed .xz files re-serialised with each unsupported feature: all 16 check IDs, BCJ/delta/random filter IDs, each reserved block-flag and stream-flag bit, concatenated streams, stream padding of 4-16 zero bytes; non-trivial = all except the documented zero-block SHA-256 file')
def run_C18(ck):
    rng = Rng(ck.seed).fork('C18')
    pool = [p for p in gen_lzma2_streams(rng, 20 if ck.tier == 'quick' else 60) if len(p['bytes']) < 3000]
    files = gen_xz_files(rng, 25 if ck.tier == 'quick' else 200, pool)
    cases = []
    def add(desc, b, must_err=True, rd=None):
        cases.append({'line': 'xz_dec in=%s%s' % (hx(b), ' rd=%s' % rd if rd else ''), 'meta': {'feature': desc}, 'must_err': must_err}); ck.count('feat_' + desc.split('=')[0])
    for f in files:
        blocks, nb = f['blocks'], len(f['blocks'])
        for cid in range(16):
            if cid in (0, 1, 4): continue
            if cid == 10 and nb == 0:
                add('sha256_zero_blocks', xz_file(blocks, 10, mb_width=f['mbw']), must_err=False)   # documented: nothing is skipped (DESIGN 2.3)
            else:
                add('check_id=%d' % cid, xz_file(blocks, cid, mb_width=f['mbw']))
        for bit in range(8):
            add('stream_flag0_bit=%d' % bit, xz_file(blocks, f['check'], tweak={'flag0': 1 << bit}, mb_width=f['mbw']))
        for bit in range(4, 8):
            add('stream_flag1_bit=%d' % bit, xz_file(blocks, f['check'], tweak={'check_byte': f['check'] | (1 << bit)}, mb_width=f['mbw']))
        if nb:
            i = rng.below(nb)
            b0 = blocks[i]
            for fid in [3, 4, 5, 6, 7, 8, 9, 0x0A, 0x20, 0x22, rng.range(0x23, 1 << 20), 0x4000000000000021]:
                nb2 = list(blocks)
                nb2[i] = XzBlock(b0.payload, b0.content, with_packed=b0.with_packed, with_unpacked=b0.with_unpacked, filter_id=fid,
                                 props=b'\x16' if fid >= 0x20 else (b'\x00' if fid == 3 else b''))
                add('filter_id=%#x' % fid, xz_file(nb2, f['check'], mb_width=f['mbw']))
            for bit in (0x04, 0x08, 0x10, 0x20):
                nb2 = list(blocks)
                nb2[i] = XzBlock(b0.payload, b0.content, with_packed=b0.with_packed, with_unpacked=b0.with_unpacked, flags_extra=bit)
                add('block_flag_reserved=%#x' % bit, xz_file(nb2, f['check'], mb_width=f['mbw']))
        if nb:
            # filter CHAINS in which an unsupported filter stands beside LZMA2 (first, middle or last), the payload nested once per
            # filter so that a decoder treating every link as LZMA2 would decode it
            def stored_(b_):
                out_, first_ = b'', True
                for i_ in range(0, len(b_), 65536):
                    out_ += bytes([1 if first_ else 2]) + struct.pack('>H', len(b_[i_:i_ + 65536]) - 1) + b_[i_:i_ + 65536]; first_ = False
                return out_ + b'\x00'
            L2 = (0x21, b'\x16')
            fi = files.index(f)
            for ci, chain in enumerate(([L2, (3, b'\x00')], [(3, b'\x00'), L2], [L2, (4 + fi % 6, b'\x00')], [L2, L2, (3, b'\x01')], [L2, (0x22 + fi, b'\x16'), L2], [L2, (3, b'\x00'), (3, b'\x00'), L2])):
                if (ci + fi) % 2: continue
                pl_ = b0.payload
                for _ in range(len(chain) - 1): pl_ = stored_(pl_)
                nb2 = list(blocks)
                nb2[i] = XzBlock(pl_, b0.content, with_packed=b0.with_packed, with_unpacked=b0.with_unpacked, filters=chain)
                add('filter_chain=%s' % '-'.join('%x' % c_[0] for c_ in chain), xz_file(nb2, f['check'], mb_width=f['mbw']))
        if nb and rng.chance(1, 2):
            eb = [XzBlock(b'\x00', b'', with_packed=rng.chance(1, 2), with_unpacked=rng.chance(1, 2)) for _ in range(nb)]
            for cid in (10, rng.choice([2, 3, 5, 9, 11, 15])):
                add('check_id=%d_empty_blocks' % cid, xz_file(eb, cid))
        other = rng.choice(files)
        add('second_stream', f['bytes'] + other['bytes'])
        L_ = len(f['bytes'])
        for tail_ in (other['bytes'], bytes(4), bytes(8) + other['bytes'], rng.bytes(rng.range(1, 9))):
            add('after_stream_reader_boundary', f['bytes'] + tail_, rd=rng.choice(['%d,%d' % (L_, rng.range(1, 9)), 'std:buf:%d' % L_, '%d,1' % L_, '1']))
        # ... and the reader FAILS (once, with each error kind) at the probe that follows the first stream: an error is an error,
        # not "end of input" (only the fill_buf of the end-of-stream probe is hit: refill index 1, the second fill, under the policy L,k)
        fi_ = files.index(f)
        for ki_, kind_ in enumerate(['other', 'eof', 'wouldblock', 'invalid', 'pipe', 'interrupted']):
            if (ki_ + fi_) % 3: continue
            tail_ = [other['bytes'], bytes(4), b'\x01'][(ki_ + fi_) % 3 if False else ki_ % 3]
            add('after_stream_reader_fault', f['bytes'] + tail_, rd='%d,%d rfail=1 ekind=%s' % (L_, 1 + ki_, kind_))
        for padlen in (4, 8, 12, 16):
            add('stream_padding=%d' % padlen, f['bytes'] + bytes(padlen))
            add('padding_then_stream', f['bytes'] + bytes(padlen) + other['bytes'])
    run_both(ck, cases)
    for c in cases:
        ck.note_case(c['line'], c['must_err'])
        def oracle(c):
            if c['must_err'] and c['r'].get('verdict') != 'err':
                return 'file using an unsupported feature (%s) was not refused: %s' % (c['meta']['feature'], c['r'].get('verdict'))
            return None
        judge(ck, c, ['verdict', 'out'], oracle, 'both', premise_guard=True)

# ------------------------------------------------------------------ C04: compression
def is_prefix(a, b):
    return len(a) <= len(b) and b[:len(a)] == a

@prop('C04', 'byte strings (lengths 0, 1, 65535, 65536, 65537, k*64KiB, random; contents incl. 0x00/0xFF runs that saturate probabilities and push carries through 0xFF) x the three compressors x {WriteToHeader(None), WriteToHeader(Some len), SkipWritingToHeader} x reader fragmentation; output compared byte-for-byte with the model and (LZMA) with the reference encoding of the literal program; then decoded by lzma-rs, by the model and, if present, by xz; non-trivial = non-empty input',
      ['the independent conforming decoder is the Coq format theory (reference encoder / model decoder) and, when installed, the xz binary'])
def run_C04(ck):
    rng = Rng(ck.seed).fork('C04')
    quick = ck.tier == 'quick'
    inputs = [b'', b'a', b'\x00', b'\xff' * 3, bytes(range(256))]
    for n in ([300, 5000] if quick else [300, 5000, 40000, 70000]):
        inputs += [b'\x00' * n, b'\xff' * n, rng.bytes(n), bytes(rng.choice([0xff, 0xff, 0xfe, 0x00]) for _ in range(n))]
    for _ in range(25 if quick else 200):
        n = rng.choice([2, 3, 7, 50, 200, 1000])
        inputs.append(rng.bytes(n) if rng.chance(1, 2) else bytes(rng.choice([0, 0xff, 0x80]) for _ in range(n)))
    # committed corpus: inputs that drive the range encoder into rare states (carry out of bit 32 while the low 32 bits are
    # >= 0xFF000000; long pending 0xFF runs), found once by tools/carrysearch - random data reaches them about once per 2e9 bytes
    for cl in open(os.path.join(ROOT, 'corpus', 'c04_rare_encoder_states.txt')):
        kind, hexdata = cl.split()
        inputs.append(bytes.fromhex(hexdata)); ck.count('corpus_' + kind.rstrip('0123456789'))
        inputs.append(bytes.fromhex(hexdata) + rng.bytes(rng.range(1, 40)))
    edge = [65535, 65536, 65537, 131072] + ([] if quick else [131073, 196608, 65536 * 5 + 1])
    cases = []
    tiny_inputs = [bytes([x]) for x in range(256)] + [bytes([rng.below(256), rng.below(256)]) for _ in range(1200 if quick else 20000)]
    def add(op, data, opt=None, rd='all', wr='all'):
        line = '%s %sin=%s rd=%s wr=%s' % (op, ('opt=%s ' % opt) if opt else '', hx(data), rd, wr)
        cases.append({'line': line, 'meta': {'op': op, 'len': len(data), 'opt': opt, 'rd': rd, 'wr': wr}, 'data': data, 'op': op, 'opt': opt})
        ck.count(op); ck.count('rd_' + rd.split(':')[0][:6])
    RDS = ['all', '1', '3,1,7', '65536', '65535,2', 'std:slice', '70000']   # not std:buf: BufReader::read bypasses its buffer for large reads, so it is not a pure fragmentation policy
    for data in inputs:
        for opt in ('wh:none', 'wh:%d' % len(data), 'skip'):
            add('lzma_enc', data, opt, rng.choice(RDS), rng.choice(['all', 'all', '1', '2,5']))
        add('lzma2_enc', data, None, rng.choice(RDS), rng.choice(['all', '1', '3,1']))
        add('xz_enc', data, None, rng.choice(RDS), rng.choice(['all', '1', '3,1', '7']))
    # lengths around the multibyte-integer boundaries of the XZ index (sizes 127/128/129 and 16383/16384/16385, as unpacked
    # size and - shifted by header, payload overhead and check - as unpadded size): every length in the small band, a sweep of the large one
    for n in list(range(100, 136)) + list(range(16356, 16396, 3 if quick else 1)) + [16383, 16384, 16385, 16500, 16511, 16512]:
        data = rng.bytes(n) if rng.chance(2, 3) else bytes([rng.below(256)]) * n
        add('xz_enc', data, None, rng.choice(['all', '4096', 'std:slice']), 'all')
    # the encoder's final flush: about one two-byte input in 200 ends with the top byte of `low` at 0xFF and no carry
    for data in tiny_inputs:
        add('lzma_enc', data, rng.choice(['wh:%d' % len(data), 'wh:%d' % len(data), 'skip', 'wh:none']), 'all', 'all')
    for n in edge:
        data = rng.bytes(n) if n < 70000 else bytes([rng.below(256)]) * n
        for rd in ['all', '65536', '1' if n <= 65537 else '4096', '65535,2', '8192']:
            add('lzma2_enc', data, None, rd)
            add('xz_enc', data, None, rd, rng.choice(['all', '100']))
    run_both(ck, cases)
    # conformance of lzma_enc with the format theory: output = header ++ reference encoding of the literal program
    lz = [c for c in cases if c['op'] == 'lzma_enc' and c['meta']['len'] <= 6000]
    refs = ref_encode(['ref_payload lc=3 lp=0 pb=2 window=8388608 prog=%s' % ('.'.join(['L%d' % b for b in c['data']] + (['E'] if c['opt'] == 'wh:none' else [])) or '-') for c in lz])
    for c, ref in zip(lz, refs):
        if ref is None: raise InfraError('reference encoder rejected a literal program')
        hdr = bytes([0x5d]) + struct.pack('<I', 0x800000)
        if c['opt'] == 'wh:none': hdr += b'\xff' * 8
        elif c['opt'].startswith('wh:'): hdr += struct.pack('<Q', int(c['opt'][3:]))
        c['conform'] = hdr + ref[0]
    # round trip through the implementation's own decoders
    dec = []
    for c in cases:
        r = c['r']
        if r.get('verdict') != 'ok': continue
        out = r.get('out', '-')
        if c['op'] == 'lzma_enc':
            o = c['opt']
            dopt = 'rfh' if o.startswith('wh') else 'up:%d' % len(c['data'])
            dec.append(({'line': 'lzma_dec opt=%s in=%s' % (dopt, out)}, c))
            if o == 'wh:none' or o == 'skip':
                pass
        elif c['op'] == 'lzma2_enc':
            dec.append(({'line': 'lzma2_dec in=%s' % out}, c))
        else:
            dec.append(({'line': 'xz_dec in=%s' % out}, c))
    run_both(ck, [d for d, _ in dec])
    back = {id(c): d for d, c in dec}
    have_xz = shutil.which('xz') is not None
    for c in cases:
        ck.note_case(c['line'], c['meta']['len'] > 0)
        def oracle(c):
            r = c['r']
            if r.get('verdict') != 'ok': return 'compressor failed without any fault: %s' % r.get('verdict')
            if 'conform' in c and unhx(r['out']) != c['conform']:
                return 'lzma_compress output is not the reference encoding of its input (format conformance)'
            d = back.get(id(c))
            if d is None: return 'no round trip performed'
            if d['r'].get('verdict') != 'ok' or unhx(d['r'].get('out', '-')) != c['data']:
                return 'compressed output does not decode back to the input with lzma-rs (%s)' % d['r'].get('verdict')
            if d['m'].get('verdict') != 'ok' or unhx(d['m'].get('out', '-')) != c['data']:
                return 'compressed output does not decode back to the input under the format model'
            return None
        judge(ck, c, ['verdict', 'out', 'pos'], oracle, 'both')
    if have_xz:
        n = 0
        for c in cases:
            if c['op'] == 'xz_enc' and c['r'].get('verdict') == 'ok' and n < (30 if quick else 200):
                n += 1
                p = subprocess.run(['xz', '-dc'], input=unhx(c['r']['out']), stdout=subprocess.PIPE, stderr=subprocess.DEVNULL)
                ck.count('xz_binary_decodes')
                if p.returncode != 0 or p.stdout != c['data']:
                    ck.violation('oracle', 'xz -dc does not decode xz_compress output back to the input', replay_dict(c))
    # inputs of 4 GiB and more through xz_compress (synthetic reader, sink keeping the total length and the last 64 bytes; release
    # build): sizes no in-memory case reaches.  Judged against the .xz format alone (the extracted model cannot process 4 GiB): the
    # Index must list one record with the true unpacked size, and header + padded block + Index + footer must add up to the total
    def mb_(t, pos):
        v = sh = 0
        while True:
            x = t[pos]; pos += 1; v |= (x & 0x7F) << sh; sh += 7
            if not x & 0x80: return v, pos
    bigs_ = [(1 << 32) + 5, 70000] if quick else [(1 << 32) + 5, (1 << 32) - 1, 1 << 32, (1 << 33) + 70000, 70000]
    lines_ = ['xz_enc_big n=%d byte=%d' % (n_, 0 if i_ % 2 == 0 else 0xA5) for i_, n_ in enumerate(bigs_)]
    for line_, n_, raw_ in zip(lines_, bigs_, run_impl(lines_, release=True)):
        r_ = parse(raw_); ck.note_case(line_); ck.count('xz_enc_big')
        bad = None
        try:
            if r_.get('verdict') != 'ok': bad = 'xz_compress failed on a %d-byte input: %s' % (n_, raw_[:80])
            else:
                t, total = unhx(r_['tail']), int(r_['total'])
                if t[-2:] != b'YZ': bad = 'footer magic missing'
                else:
                    isz = (struct.unpack('<I', t[-8:-4])[0] + 1) * 4
                    pos = len(t) - 12 - isz
                    if pos < 0 or t[pos] != 0: bad = 'Index not where Backward Size says'
                    else:
                        nrec, pos = mb_(t, pos + 1); unpadded, pos = mb_(t, pos); unpacked, pos = mb_(t, pos)
                        if nrec != 1: bad = 'Index lists %d records for one block' % nrec
                        elif unpacked != n_: bad = 'Index unpacked size %d for an input of %d bytes' % (unpacked, n_)
                        elif 12 + (unpadded + 3) // 4 * 4 + isz + 12 != total: bad = 'Index unpadded size %d does not add up to the %d bytes written' % (unpadded, total)
        except (KeyError, IndexError, ValueError, struct.error) as e:
            bad = 'unparsable result %s (%s)' % (raw_[:80], e)
        if bad: ck.violation('oracle', bad, {'case': line_, 'impl_result': raw_[:300], 'property': 'C04', 'how_to_replay': 'build/harness release binary: echo the case line | lzrs'})

# ------------------------------------------------------------------ streaming helpers
def stream_calls(data, lens, tail='x', rng=None):
    calls = []
    for p in pieces(data, lens):
        calls.append('W:%s' % hx(p))
        # other API calls between the writes must not change what is decoded: flush, get_output, sink length
        if rng is not None and rng.chance(1, 5): calls.append(rng.choice(['f', 'o', 'g']))
    return ';'.join(calls + [tail])

def corrupt(rng, b, lo=0):
    if len(b) <= lo: return b
    m = bytearray(b)
    for _ in range(rng.range(1, 3)):
        p = rng.range(lo, len(b) - 1); m[p] ^= 1 << rng.below(8)
    return bytes(m)

def lzma_variants(rng, s):
    """(kind, bytes, opt) inputs derived from a well-formed stream s: valid, truncated, corrupted, trailing, other options"""
    b = s['bytes']
    out = [('valid', b, 'rfh')]
    out.append(('truncated', b[:rng.range(0, len(b) - 1)], 'rfh'))
    out.append(('truncated_tail', b[:len(b) - rng.range(1, min(6, len(b)))], 'rfh'))
    out.append(('corrupt', corrupt(rng, b, 13), 'rfh'))
    out.append(('corrupt_header', corrupt(rng, b[:13]) + b[13:], 'rfh'))
    out.append(('trailing', b + rng.bytes(rng.range(1, 25)), 'rfh'))
    n = s['n']
    out.append(('rhp', b, 'rhp:%s' % ('none' if s['style'] == 'marker' else n)))
    out.append(('rhp_junk_field', b[:5] + junk_field(rng) + b[13:], 'rhp:%s' % ('none' if s['style'] == 'marker' else n)))
    out.append(('rhp_wrong', b, 'rhp:%d' % rng.choice([0, max(0, n - 1), n + 1])))
    out.append(('up', b[:5] + b[13:], 'up:%s' % ('none' if s['style'] == 'marker' else n)))
    out.append(('up_wrong', b[:5] + b[13:], 'up:%d' % rng.choice([0, max(0, n - 1), n + 1, n + 300])))
    return out

@prop('C05', 'LZMA inputs (well-formed streams of every symbol kind, truncated, corrupted, with trailing bytes; all three header options, size known/unknown) x chunkings (whole, single bytes, every single cut for short inputs, cuts inside the first 40 bytes, random compositions with empty pieces); Stream write*/finish vs lzma_decompress_with_options on the concatenation, both on the implementation and on the model; non-trivial = more than one piece and input longer than the header')
def run_C05(ck):
    rng = Rng(ck.seed).fork('C05')
    quick = ck.tier == 'quick'
    streams = gen_lzma_streams(rng, 50 if quick else 400, big_every=25, max_syms=40) + gen_wrap_streams(rng, 2 if quick else 10, ('marker', 'sized', 'sized+marker'))
    cases = []
    costly = gen_costly_literal_streams(rng, 3 if quick else 20)
    for s in streams + costly + gen_sweep_streams(rng, [(0, 0, 4)] if quick else [(0, 0, 4), (8, 4, 4), (1, 3, 2)]):
        for kind, data, opt in (lzma_variants(rng, s) if not s.get('costly_literal') else [('valid', s['bytes'], 'rfh')]):
            hows = ['whole', 'bytes', 'single', 'early', 'random', 'random'] if len(data) < 400 else ['whole', 'single', 'early', 'random']
            if s.get('costly_literal') or (len(data) <= 40 and rng.chance(1, 3)):
                cuts = [[c, len(data) - c] for c in range(len(data) + 1)]
            else:
                cuts = [chunkings(rng, len(data), h) for h in hows]
            one = {'line': 'lzma_dec opt=%s in=%s' % (opt, hx(data)), 'meta': {'kind': kind, 'opt': opt}}
            cases.append(one)
            if kind == 'valid' and opt == 'rfh' and len(data) > 18:
                # with allow_incomplete a complete, valid stream must still come out whole (every symbol is decoded by the writes;
                # nothing is left staged when the first write carries header and coder preamble)
                for lens_ in cuts[:3]:
                    l2_ = list(lens_)
                    while len(l2_) > 1 and l2_[0] < 18: l2_ = [l2_[0] + l2_[1]] + l2_[2:]
                    cases.append({'line': 'stream opt=%s allow=1 calls=%s' % (opt, stream_calls(data, l2_)),
                                  'meta': {'kind': 'valid_allow_incomplete', 'opt': opt, 'pieces': len(l2_)}, 'oneshot': one, 'n': len(data), 'npieces': len(l2_)})
                    ck.count('kind_valid_allow_incomplete')
            for lens in cuts:
                cases.append({'line': 'stream opt=%s calls=%s' % (opt, stream_calls(data, lens, rng=rng if rng.chance(1, 3) else None)),
                              'meta': {'kind': kind, 'opt': opt, 'pieces': lens if len(lens) < 40 else len(lens)}, 'oneshot': one, 'n': len(data), 'npieces': len(lens)})
                ck.count('kind_' + kind); ck.count('opt_' + opt.split(':')[0])
    # end-marker streams followed by ALL-ZERO bytes (a range decoder fed zeros decodes symbols happily) or, with a provided size
    # larger than the true one, by arbitrary bytes - the trailing bytes in a write of their own, right after the marker
    for si_, s in enumerate([s_ for s_ in streams if s_['style'] == 'marker' and not s_.get('big')][:20 if quick else 150]):
        b = s['bytes']
        for ti_, (opt, data, tail_) in enumerate((('rfh', b, bytes(1 + si_ % 7)), ('rfh', b, bytes(20 + si_ % 9)),
                                                  ('rhp:%d' % (s['n'] + 1), b, bytes([0x5a, si_ % 256, 3])), ('up:%d' % (s['n'] + 1 + si_ % 3), b[:5] + b[13:], bytes(6)))):
            one = {'line': 'lzma_dec opt=%s in=%s' % (opt, hx(data + tail_)), 'meta': {'kind': 'marker_then_tail', 'opt': opt}}
            cases.append(one)
            for lens_ in ([len(data), len(tail_)], [len(data) - 1, 1, len(tail_)], [len(data)] + [1] * len(tail_)):
                cases.append({'line': 'stream opt=%s calls=%s' % (opt, stream_calls(data + tail_, lens_)), 'meta': {'kind': 'marker_then_tail', 'opt': opt, 'pieces': lens_},
                              'oneshot': one, 'n': len(data) + len(tail_), 'npieces': len(lens_)})
                ck.count('kind_marker_then_tail')
    treqs = []
    for k in range(3 if quick else 12):
        lc, lp, pb = rand_props(rng)
        pbld = random_program(rng, rng.range(5, 30), 4096, lit_bias=2)
        x_ = rng.below(256)
        for _ in range(rng.range(400, 700)): pbld.lit(x_)          # a tail of almost free symbols (a trained literal costs ~0.05 bit): the last
                                                                   # dozen are decoded after the final input byte has been read
        treqs.append(('ref_lzma lc=%d lp=%d pb=%d dict=4096 size=%d delta=0 prog=%s' % (lc, lp, pb, pbld.n, pbld.text(False)), pbld.n))
    for e_, (rq_, n_) in zip(ref_encode([t[0] for t in treqs]), treqs):
        if e_ is None: raise InfraError('reference encoder rejected a cheap-tail program')
        data = e_[0]
        one = {'line': 'lzma_dec opt=rfh in=%s' % hx(data), 'meta': {'kind': 'cheap_tail', 'opt': 'rfh'}}
        cases.append(one)
        for how in ('whole', 'random', 'bytes', 'single'):
            l2_ = chunkings(rng, len(data), how)
            while len(l2_) > 1 and l2_[0] < 18: l2_ = [l2_[0] + l2_[1]] + l2_[2:]
            for allow_ in (0, 1):
                cases.append({'line': 'stream opt=rfh allow=%d calls=%s' % (allow_, stream_calls(data, l2_)), 'meta': {'kind': 'cheap_tail', 'opt': 'rfh', 'allow': allow_, 'pieces': len(l2_)},
                              'oneshot': one, 'n': len(data), 'npieces': len(l2_)})
                ck.count('kind_cheap_tail')
        # the same stream under a memory limit below / at / above what its output needs (the dictionary itself is larger):
        # one-shot and streaming decoders must agree on whether the limit is hit
        for mem_ in (n_ // 2, n_ - 1, n_, 4095, 4096):
            one_m = {'line': 'lzma_dec opt=rfh mem=%d in=%s' % (mem_, hx(data)), 'meta': {'kind': 'memlimit', 'opt': 'rfh', 'mem': mem_, 'n_out': n_}}
            cases.append(one_m)
            for l2_ in ([len(data)], [18, len(data) - 18], [13] + [7] * ((len(data) - 13) // 7 + 1)):
                cases.append({'line': 'stream opt=rfh mem=%d allow=%d calls=%s' % (mem_, mem_ % 2, stream_calls(data, l2_)), 'meta': {'kind': 'memlimit', 'opt': 'rfh', 'mem': mem_, 'n_out': n_, 'pieces': len(l2_)},
                              'oneshot': one_m, 'n': len(data), 'npieces': len(l2_)})
                ck.count('kind_memlimit')
    cases.append({'line': 'stream opt=rfh calls=x', 'meta': {'kind': 'empty'}, 'empty': True})
    cases.append({'line': 'stream opt=rfh calls=W:-;W:-;x', 'meta': {'kind': 'empty'}, 'empty': True})
    run_both(ck, cases)
    for c in cases:
        if 'oneshot' not in c and 'empty' not in c:
            judge(ck, c, ['verdict', 'out'], None, 'both'); continue
        ck.note_case(c['line'], c.get('npieces', 0) > 1 and c.get('n', 0) > 13)
        def oracle(c):
            r = c['r']; calls = r.get('res', '').split(';')
            if any(x.endswith('panic') or ':panic' in x for x in calls): return 'streaming decoder panicked'
            fin = calls[-1]
            if c.get('empty') or c.get('n') == 0:
                return None if (fin == 'x:ok' and r.get('out') == '-') else 'zero total input must finish Ok with empty output'
            o = c['oneshot']['r']
            sv = 'ok' if fin == 'x:ok' and not any(x.startswith('W:err') for x in calls) else 'err'
            if sv != o.get('verdict'):
                return 'streaming verdict %s differs from one-shot verdict %s' % (sv, o.get('verdict'))
            if sv == 'ok' and r.get('out') != o.get('out'):
                return 'streaming output differs from one-shot output'
            return None
        judge(ck, c, ['res', 'out'], oracle, 'both')

# ------------------------------------------------------------------ C08: size and end-of-stream rules
@prop('C08', 'well-formed LZMA streams x {ReadFromHeader, ReadHeaderButUseProvided(None|Some n), UseProvided(None|Some n)} x header size field {all-ones, true, true+-1, 0, 2^63} x end marker present/absent x n in {true, +-1, 0} x trailing bytes, one-shot and streaming; the expected verdict is computed from the construction; non-trivial = a size or marker rule is exercised')
def run_C08(ck):
    rng = Rng(ck.seed).fork('C08')
    quick = ck.tier == 'quick'
    cases = []
    reqs, metas = [], []
    for k in range(60 if quick else 500):
        lc, lp, pb = rand_props(rng)
        pbld = random_program(rng, rng.range(1, 30), 4096, lit_bias=2)
        if rng.chance(1, 2) and pbld.maxd() > 0:
            pbld.match(pick_dist(rng, pbld.maxd()), rng.range(3, 60))     # ends with a match so that n-1 falls inside it
        marker = rng.chance(1, 2)
        reqs.append('ref_lzma lc=%d lp=%d pb=%d dict=%d size=none prog=%s' % (lc, lp, pb, rng.choice([0, 4096, 65536]), pbld.text(marker)))
        metas.append({'n': pbld.n, 'marker': marker, 'last_is_match': pbld.syms[-1][0] in 'MR', 'last_len': int(pbld.syms[-1].split(',')[1]) if pbld.syms[-1][0] in 'MR' else 1})
    for enc, meta in zip(ref_encode(reqs), metas):
        if enc is None: raise InfraError('reference encoder rejected a C08 program')
        b, out = enc; T = meta['n']
        payload = b[13:]
        # a provided size of all-ones is a size like any other (only the HEADER field's all-ones means "unknown")
        for opt, hl in (('rhp:%d' % ALL_ONES, 13), ('up:%d' % ALL_ONES, 5)):
            for field in (ALL_ONES, T):
                data = b[:5] + (struct.pack('<Q', field) if hl == 13 else b'') + payload
                m = {'eff': ALL_ONES, 'T': T, 'marker': meta['marker'], 'trailing': 0, 'opt': opt, 'hsize': 'ones' if field == ALL_ONES else str(T), 'hdrlen': hl}
                cases.append({'line': 'lzma_dec opt=%s in=%s' % (opt, hx(data)), 'meta': m, 'expect': 'err' if meta['marker'] else None, 'true_out': out, 'paylen': len(payload)})
                ck.count('provided_size_all_ones')
                if hl == 5: break
        if meta['marker']:
            # all-zero bytes in a write of their own right after the end marker (a range decoder fed zeros goes on decoding): with no
            # size in effect they are trailing data, with a larger size in effect the marker came too early - an error either way
            for zi_, (opt, eff, hl, z_) in enumerate((('rfh', None, 13, 1), ('rfh', None, 13, 24), ('up:none', None, 5, 6), ('rhp:%d' % (T + 1), T + 1, 13, 5), ('up:%d' % (T + 2), T + 2, 5, 7))):
                data = b[:5] + (struct.pack('<Q', ALL_ONES) if hl == 13 else b'') + payload
                m = {'eff': eff, 'T': T, 'marker': True, 'trailing': z_, 'opt': opt, 'hsize': 'ones', 'hdrlen': hl, 'zero_tail': True}
                for lens in ([len(data), z_], [len(data)] + [1] * z_):
                    cases.append({'line': 'stream opt=%s calls=%s' % (opt, stream_calls(data + bytes(z_), lens)), 'meta': m, 'expect': 'err', 'true_out': out, 'stream': True})
                    ck.count('marker_then_zero_tail')
        for hsize in ['ones', T, T - 1, T + 1, 0, 1 << 63, T + (1 << 32), T + (rng.range(2, 1000) << 32)]:    # incl. sizes equal to the true one modulo 2^32
            field = ALL_ONES if hsize == 'ones' else max(0, hsize)
            for trailing in ([b''] if not quick or rng.chance(2, 3) else []) + ([rng.bytes(rng.range(1, 9))] if rng.chance(1, 3) else []):
                opts = [('rfh', None if hsize == 'ones' else field, 13)]
                opts.append(('rhp:none', None, 13))
                for nn in (T, T - 1, T + 1, 0, T + (1 << 32), T + (1 << 40)):
                    if nn >= 0 and rng.chance(1, 2):
                        opts.append(('rhp:%d' % nn, nn, 13)); opts.append(('up:%d' % nn, nn, 5))
                opts.append(('up:none', None, 5))
                for opt, eff, hl in (opts if not quick else [rng.choice(opts), rng.choice(opts)]):
                    hdr = b[:5] + (struct.pack('<Q', field) if hl == 13 else b'')
                    data = hdr + payload + trailing
                    # expected verdict from the construction
                    if eff is None:
                        expect = 'ok' if (meta['marker'] and not trailing) else 'err'
                    elif eff == T:
                        expect = 'ok'
                    elif eff > T:
                        # certain only when the marker is met first; otherwise trailing bytes (or symbols that need
                        # no further input) may legitimately be decoded up to the size in effect
                        expect = 'err' if meta['marker'] else None
                    else:
                        expect = None          # stops early: ok only on a symbol boundary; checked through the length rule
                    m = {'eff': eff, 'T': T, 'marker': meta['marker'], 'trailing': len(trailing), 'opt': opt, 'hsize': str(hsize), 'hdrlen': hl}
                    if rng.chance(2, 3):
                        cases.append({'line': 'lzma_dec opt=%s in=%s' % (opt, hx(data)), 'meta': m, 'expect': expect, 'true_out': out, 'paylen': len(payload)})
                    else:
                        lens = chunkings(rng, len(data), rng.choice(['whole', 'single', 'random', 'early']))
                        if trailing and rng.chance(1, 2):
                            lens = [len(data) - len(trailing), len(trailing)]        # the trailing bytes arrive in a write of their own
                        cases.append({'line': 'stream opt=%s calls=%s' % (opt, stream_calls(data, lens)), 'meta': m, 'expect': expect, 'true_out': out, 'stream': True})
                    ck.count('eff_' + ('none' if eff is None else 'eq' if eff == T else 'gt' if eff > T else 'lt')); ck.count('opt_' + opt.split(':')[0])
    raws = []
    rreqs, rmetas = [], []
    for k in range(12 if quick else 80):
        lc, lp, pb = rand_props(rng)
        pbld = random_program(rng, rng.range(1, 30), 4096, lit_bias=2)
        rreqs.append('ref_payload lc=%d lp=%d pb=%d window=4096 prog=%s' % (lc, lp, pb, pbld.text(False)))
        rmetas.append(((lc, lp, pb), pbld.n))
    for enc, (pr, n_) in zip(ref_encode(rreqs), rmetas):
        if enc is None: raise InfraError('reference encoder rejected a C08 raw program')
        a_ = rng.choice([0, 1, n_ + 1, n_ + 7, max(0, n_ - 1)])
        if a_ == n_: a_ += 1
        hist = rng.choice([['rs:%d' % n_, 'r'], ['rs:%d' % n_, 'r', 'r'], ['rs:%d' % (n_ + 3), 'rs:%d' % n_, 'r'], ['rn', 'rs:%d' % n_, 'r']])
        raws.append({'line': 'raw_lzma lc=%d lp=%d pb=%d dict=4096 size=%d ops=%s;d:%s' % (pr[0], pr[1], pr[2], a_, ';'.join(hist), hx(enc[0])),
                     'meta': {'api': 'raw', 'built_with': a_, 'size_in_effect': n_, 'history': hist}, 'raw_out': enc[1]})
        ck.count('raw_size_in_effect_after_resets')
    run_both(ck, raws)
    for c in raws:
        ck.note_case(c['line'])
        def oracle_raw(c):
            last = c['r'].get('res', '').split(';')[-1].split(':')
            if len(last) < 3 or last[1] != 'ok': return 'size in effect %d (set by reset, then reset(None)) but a payload of exactly that many bytes was not decoded: %s' % (c['meta']['size_in_effect'], ':'.join(last)[:60])
            if unhx(last[2]) != c['raw_out']: return 'raw decoder output differs after reset(Some(n)); reset(None)'
            return None
        judge(ck, c, ['res'], oracle_raw, 'both', premise_guard=True)
    run_both(ck, cases)
    for c in cases:
        ck.note_case(c['line'])
        def oracle(c):
            r, m = c['r'], c['meta']
            if c.get('stream'):
                calls = r.get('res', '').split(';')
                v = 'panic' if any('panic' in x for x in calls) else ('ok' if calls[-1] == 'x:ok' and not any(x.startswith('W:err') for x in calls) else 'err')
            else:
                v = r.get('verdict')
            out = unhx(r.get('out', '-'))
            if v == 'panic': return 'panic'
            if c['expect'] and v != c['expect']:
                return 'size/end-of-stream rule violated: expected %s, implementation says %s (size in effect %s, true length %d, marker %s, trailing %d)' % (c['expect'], v, m['eff'], m['T'], m['marker'], m['trailing'])
            if v == 'ok':
                if m['eff'] is not None and len(out) != m['eff']:
                    return 'success with %d bytes although the size in effect is %d' % (len(out), m['eff'])
                if not is_prefix(out[:m['T']], c['true_out']):
                    return 'success with output that is not a prefix of the defined output'
                if not c.get('stream') and m['eff'] == m['T'] and not m['marker'] and int(r.get('pos', -1)) != m['hdrlen'] + c['paylen']:
                    return 'header option consumed an unexpected number of header bytes (pos %s)' % r.get('pos')
            return None
        judge(ck, c, ['res', 'out'] if c.get('stream') else ['verdict', 'out', 'pos'], oracle, 'both', premise_guard=True)

# ------------------------------------------------------------------ C09: out-of-window references
@prop('C09', 'symbol programs in which one copy (match, short rep, rep0-3) has a distance beyond the bytes produced or beyond the dictionary {produced+1, dict+1, 2^32-1, ...} at every position relative to the wrap point, encoded by the lenient reference encoder up to and including the bad symbol; circular window via header (4096) and raw API (dictionaries 1-8), accumulating window via LZMA2 after dictionary resets; non-trivial = all')
def run_C09(ck):
    rng = Rng(ck.seed).fork('C09')
    quick = ck.tier == 'quick'
    reqs, metas = [], []
    def bad_copy(pb, window):
        """append one ill-formed copy symbol to pb; returns a description"""
        md = pb.maxd()
        lim_desc = []
        choices = []
        # a new distance beyond the produced bytes or the window
        cand = [pb.n + 1, pb.n + 2, 0xFFFFFFFF, pb.n + rng.range(1, 5000)]
        if window is not None:
            cand += [window + 1, window + rng.range(1, 50)]
            if pb.n > window: cand += [pb.n, pb.n - 1 if pb.n - 1 > window else window + 1]
        d = rng.choice([c for c in cand if c > md and c <= 0xFFFFFFFF])
        kind = rng.below(3)
        if kind == 0 or pb.n == 0 and kind == 1:
            pb.syms.append('M%d,%d' % (d, pick_len(rng))); return 'match dist %d > %d' % (d, md)
        # poison a rep slot is impossible in a well-formed prefix, so use reps that are stale relative to a window we shrink:
        if pb.n == 0:
            pb.syms.append('S' if kind == 1 else 'R0,%d' % pick_len(rng)); return 'rep at position 0'
        pb.syms.append('M%d,%d' % (d, pick_len(rng))); return 'match dist %d > %d' % (d, md)
    for k in range(900 if quick else 6000):
        lc, lp, pb3 = rand_props(rng)
        mode = rng.below(3)
        if mode == 0:      # header API, window 4096, sometimes after the window has wrapped
            pbld = random_program(rng, 400 if rng.chance(1, 4) else rng.range(0, 30), 4096, lit_bias=1, until=rng.choice([0, 5, 4000, 4096, 4097, 8200, 12288]))
            desc = bad_copy(pbld, 4096)
            # half of the streams declare exactly produced + copy length: a decoder that wrongly performs the copy then
            # finishes successfully with fabricated bytes instead of failing later for lack of input
            last = pbld.syms[-1]
            blen = 1 if last == 'S' else int(last.split(',')[1])
            room = rng.chance(1, 2)
            reqs.append('ref_lzma lenient=1 lc=%d lp=%d pb=%d dict=%d size=%s prog=%s' % (lc, lp, pb3, rng.choice([0, 4096]), str(pbld.n + blen) if room else 'none', pbld.text()))
            metas.append({'api': 'lzma', 'desc': desc, 'produced': pbld.n, 'room_for_copy': room})
            # a memory limit below the dictionary size must not change which copies are legal (only when decoding stops)
            last = pbld.syms[-1]
            if last[0] == 'M' and rng.chance(1, 2):
                d_ = int(last[1:].split(',')[0])
                if d_ < (1 << 31):
                    metas[-1]['mem'] = rng.choice([d_, d_ + 1, d_ + rng.range(1, 300), max(d_, 4095), 2 * d_ + 7])     # often below the 4096 dictionary
        elif mode == 1:    # raw API, tiny dictionaries
            d = rng.choice([1, 2, 3, 4, 5, 8])
            pbld = random_program(rng, rng.range(0, 40), d, lit_bias=2)
            desc = bad_copy(pbld, d)
            last = pbld.syms[-1]
            blen = 1 if last == 'S' else int(last.split(',')[1])
            reqs.append('ref_payload lenient=1 lc=%d lp=%d pb=%d window=%d prog=%s' % (lc, lp, pb3, d, pbld.text()))
            metas.append({'api': 'raw', 'dict': d, 'props': (lc, lp, pb3), 'desc': desc, 'produced': pbld.n, 'size': str(pbld.n + blen) if rng.chance(1, 2) else 'none'})
        else:              # LZMA2: distance reaching before the last dictionary reset
            lc, lp, pb3 = rand_props(rng, lzma2=True)
            pre = rng.bytes(rng.range(1, 50))
            pbld = ProgBuilder(None)
            for _ in range(rng.range(0, 20)): pbld.random_sym(rng, 2)
            desc = bad_copy(pbld, None)
            if rng.chance(1, 2):
                reqs.append('ref_lzma2 lenient=1 chunks=U1:%s/Z3:%d,%d,%d:0:%s' % (hx(pre), lc, lp, pb3, pbld.text()))
                metas.append({'api': 'lzma2', 'desc': desc, 'produced': pbld.n, 'before_reset': len(pre), 'last_sym': pbld.syms[-1]})
            else:
                # the reset is done by an UNCOMPRESSED chunk (control 0x01) in mid-stream; the copy sits in a later chunk that
                # resets only the state and reaches data from before that reset
                pre0 = rng.bytes(rng.range(5, 60))
                p2 = ProgBuilder(None); p2.n = len(pre)
                for _ in range(rng.range(0, 12)): p2.random_sym(rng, 2)
                dd = p2.n + rng.range(1, len(pre0))
                p2.syms.append(rng.choice(['M%d,%d' % (dd, pick_len(rng)), 'M%d,2' % dd]))
                first = rng.choice(['U1:%s' % hx(pre0), 'Z3:%d,%d,%d:0:%s' % (lc, lp, pb3, '.'.join('L%d' % x for x in pre0))])
                reqs.append('ref_lzma2 lenient=1 chunks=%s/U1:%s/Z2:%d,%d,%d:0:%s' % (first, hx(pre), lc, lp, pb3, p2.text()))
                metas.append({'api': 'lzma2', 'desc': 'match dist %d > %d bytes since the uncompressed reset chunk' % (dd, p2.n), 'produced': p2.n, 'before_reset': len(pre0),
                              'last_sym': p2.syms[-1], 'fix_first': first[0] == 'Z', 'raw_reset_mid': True})
    for k in range(60 if quick else 400):
        lc, lp, pb3 = rand_props(rng)
        first = rng.choice(['S', 'R0,%d' % pick_len(rng), 'R1,%d' % pick_len(rng), 'R3,%d' % pick_len(rng), 'M1,%d' % pick_len(rng)])
        which = rng.below(3)
        if which == 0:
            reqs.append('ref_lzma lenient=1 lc=%d lp=%d pb=%d dict=%d size=none prog=%s' % (lc, lp, pb3, rng.choice([0, 4096, 65536]), first))
            metas.append({'api': 'lzma', 'desc': 'copy as the first symbol of the stream: ' + first, 'produced': 0})
        elif which == 1:
            d = rng.choice([1, 2, 8, 4096])
            reqs.append('ref_payload lenient=1 lc=%d lp=%d pb=%d window=%d prog=%s' % (lc, lp, pb3, d, first))
            metas.append({'api': 'raw', 'dict': d, 'props': (lc, lp, pb3), 'desc': 'copy as the first symbol: ' + first, 'produced': 0})
        else:
            lc, lp, pb3 = rand_props(rng, lzma2=True)
            pre = 'U1:%s/' % hx(rng.bytes(rng.range(1, 9))) if rng.chance(1, 2) else ''
            reqs.append('ref_lzma2 lenient=1 chunks=%sZ3:%d,%d,%d:0:%s' % (pre, lc, lp, pb3, first))
            metas.append({'api': 'lzma2', 'desc': 'copy as the first symbol after a dictionary reset: ' + first, 'produced': 0, 'last_sym': first})
    # a dictionary-reset chunk in the middle of the stream with more than 64 KiB declared (control bytes 0xE1-0xFF and their
    # non-resetting siblings): the bad copy comes after >= 65536 bytes and reaches data from before the reset
    for k in range(24 if quick else 120):
        lc, lp, pb3 = rand_props(rng, lzma2=True)
        pre = rng.bytes(rng.range(300, 900))
        pbld = ProgBuilder(None)
        pbld.lit(rng.below(256))
        for _ in range(rng.range(0, 4)): pbld.random_sym(rng, 2)
        while pbld.n < 65536 + rng.range(0, 3000) * rng.below(2):
            if rng.chance(1, 8): pbld.lit(rng.below(256))
            else: pbld.match(pick_dist(rng, min(pbld.maxd(), 64)), rng.range(200, 273))
        d = pbld.n + rng.range(1, len(pre))
        pbld.syms.append(rng.choice(['M%d,%d' % (d, pick_len(rng)), 'M%d,2' % d]))
        first = rng.choice(['U1:%s' % hx(pre), 'Z3:%d,%d,%d:0:%s' % (lc, lp, pb3, '.'.join('L%d' % b_ for b_ in pre))])
        reqs.append('ref_lzma2 lenient=1 chunks=%s/Z3:%d,%d,%d:0:%s' % (first, lc, lp, pb3, pbld.text()))
        metas.append({'api': 'lzma2', 'desc': 'match dist %d > %d bytes since the dictionary reset of a > 64 KiB chunk' % (d, pbld.n), 'produced': pbld.n, 'before_reset': len(pre), 'last_sym': pbld.syms[-1], 'fix_first': first[0] == 'Z'})
    for k in range(40 if quick else 300):
        lc, lp, pb3 = rand_props(rng, lzma2=True)
        pbld = ProgBuilder(None)
        pbld.lit(rng.below(256))
        for _ in range(rng.range(0, 6)): pbld.random_sym(rng, 3)
        pbld.match(pick_dist(rng, pbld.maxd()), pick_len(rng))          # leaves the automaton in a state >= 7 with rep0 set
        good = pbld.text()
        pre = rng.bytes(rng.range(1, 3)) if rng.chance(1, 2) else b''   # fewer bytes than rep0 + 1 in most cases
        reqs.append('ref_lzma2 chunks=Z3:%d,%d,%d:0:%s/U1:%s/Z0:-:0:L%d' % (lc, lp, pb3, good, hx(pre or b'\x00'), rng.below(256)))
        metas.append({'api': 'lzma2_matched_literal', 'desc': 'matched-literal read after a dictionary reset without state reset', 'rep0': pbld.reps[0], 'after_reset': len(pre or b'x')})
    cases = []
    for enc, meta in zip(ref_encode(reqs), metas):
        if enc is None: raise InfraError('lenient reference encoder failed')
        if meta['api'] == 'lzma2_matched_literal':
            if meta['rep0'] <= meta['after_reset']: continue           # the read is inside the new history: legal, not a C09 case
            cases.append({'line': 'lzma2_dec in=%s' % hx(enc[0]), 'meta': meta, 'good_out': enc[1]})
            ck.count('api_lzma2_matched_literal'); continue
        b, out = enc
        if meta['api'] == 'lzma':
            line = 'lzma_dec opt=rfh %sin=%s' % ('mem=%d ' % meta['mem'] if 'mem' in meta else '', hx(b))
            if 'mem' in meta: ck.count('lzma_with_memlimit')
        elif meta['api'] == 'raw':
            lc, lp, pb3 = meta['props']
            line = 'raw_lzma lc=%d lp=%d pb=%d dict=%d size=%s ops=d:%s' % (lc, lp, pb3, meta['dict'], meta.get('size', 'none'), hx(b))
        else:
            line = 'lzma2_dec in=%s' % hx(b)
            # the lenient serialiser declares produced + 1 bytes for the chunk that ends in the bad copy; a decoder that
            # wrongly performs the copy would then still fail (overshoot) unless the copy has length 1.  In half of the
            # cases declare room for the whole copy, so that accepting it shows as success with fabricated bytes.
            if meta.get('fix_first'):
                # the lenient serialiser adds its extra byte to every compressed chunk: take it back from the well-formed first one
                w = walk_lzma2(b)[0]; un = w['unpacked'] - 1
                b = b[:w['off']] + bytes([(w['control'] & 0xE0) | ((un - 1) >> 16)]) + struct.pack('>H', (un - 1) & 0xFFFF) + b[w['off'] + 3:]
                line = 'lzma2_dec in=%s' % hx(b)
            last = meta.get('last_sym', 'S')
            blen = 1 if last == 'S' else int(last.split(',')[1])
            if blen > 1 and rng.chance(1, 2):
                w = [x for x in walk_lzma2(b) if x['kind'] == 'lzma'][-1]
                un = w['unpacked'] + blen - 1
                if un <= (1 << 21):
                    b = b[:w['off']] + bytes([(w['control'] & 0xE0) | ((un - 1) >> 16)]) + struct.pack('>H', (un - 1) & 0xFFFF) + b[w['off'] + 3:]
                    line = 'lzma2_dec in=%s' % hx(b); meta = dict(meta, room_for_copy=True)
                    ck.count('lzma2_room_for_copy')
        cases.append({'line': line, 'meta': meta, 'good_out': out})
        ck.count('api_' + meta['api'])
        if meta['api'] == 'lzma' and 'mem' not in meta and rng.chance(1, 3):
            # the same stream through the streaming decoder (the copy is usually within the last 20 input bytes: dry-run territory),
            # with and without allow_incomplete: some call must fail, and nothing fabricated may reach the sink
            lens = chunkings(rng, len(b), rng.choice(['whole', 'random', 'single', 'bytes' if len(b) < 200 else 'random']))
            m2 = dict(meta, api='stream', allow=rng.below(2))
            cases.append({'line': 'stream opt=rfh allow=%d calls=%s' % (m2['allow'], stream_calls(b, lens)), 'meta': m2, 'good_out': out})
            ck.count('api_stream')
    run_both(ck, cases)
    for c in cases:
        ck.note_case(c['line'])
        def oracle(c):
            r = c['r']
            if c['meta']['api'] == 'raw':
                parts = r.get('res', '').split(';')
                v = parts[1].split(':')[1] if len(parts) > 1 else 'err'
                out = unhx(parts[1].split(':')[2]) if len(parts) > 1 else b''
            elif c['meta']['api'] == 'stream':
                calls = r.get('res', '').split(';')
                v = 'panic' if any('panic' in x for x in calls) else ('ok' if calls[-1] == 'x:ok' and not any(x.startswith('W:err') for x in calls) else 'err')
                out = unhx(r.get('out', '-'))
            else:
                v, out = r.get('verdict'), unhx(r.get('out', '-'))
            if v != 'err': return 'a copy reaching outside the produced window (%s) was not rejected: %s' % (c['meta']['desc'], v)
            if not is_prefix(out, c['good_out']): return 'bytes were fabricated for an out-of-window reference'
            return None
        judge(ck, c, ['res'] if c['meta']['api'] == 'raw' else ['res', 'out'] if c['meta']['api'] == 'stream' else ['verdict', 'out'], oracle, 'both', premise_guard=True)

# ------------------------------------------------------------------ C10: memory limit
@prop('C10', 'LZMA streams (well-formed, incl. outputs larger than the dictionary; also corrupted) x limits m in {0, 1, need-1, need, need+1, dict-1, dict, none} where need = min(dictionary, produced), one-shot and streaming under random chunkings; with need <= m the result must equal the unlimited run, otherwise an error with a prefix of the output; peak heap of the window measured by the counting allocator; non-trivial = limit within 2 of need or dict')
def run_C10(ck):
    rng = Rng(ck.seed).fork('C10')
    quick = ck.tier == 'quick'
    streams = gen_lzma_streams(rng, 60 if quick else 400, big_every=4, end_styles=('marker', 'sized'), max_syms=50) + gen_wrap_streams(rng, 2 if quick else 10)
    cases = []
    for s in streams:
        dict_eff = max(s['dict'], 4096)
        T = s['n']
        need = min(dict_eff, T)
        data = s['bytes'] if rng.chance(5, 6) else corrupt(rng, s['bytes'], 13)
        valid = data == s['bytes']
        base = {'line': 'lzma_dec opt=rfh mem=none in=%s' % hx(data), 'meta': {'need': need, 'dict': dict_eff, 'T': T, 'valid': valid}}
        cases.append(base)
        ms = sorted(set(x for x in [0, 1, need - 1, need, need + 1, dict_eff - 1, dict_eff, dict_eff + 1, T, 1 << 40] if x >= 0))
        for m in (ms if not quick else [rng.choice(ms) for _ in range(4)] + [need, need - 1 if need else 0]):
            meta = {'need': need, 'dict': dict_eff, 'T': T, 'm': m, 'valid': valid}
            # the limit together with the other options: a caller-supplied size (second / third header option), allow_incomplete
            size_ = 'none' if s['style'] == 'marker' else str(T)
            okind = rng.choice(['rfh', 'rfh', 'rhp', 'up']) if valid else 'rfh'
            if okind == 'rfh': opt_, d_ = 'rfh', data
            elif okind == 'rhp': opt_, d_ = 'rhp:' + size_, data[:5] + junk_field(rng) + data[13:]
            else: opt_, d_ = 'up:' + size_, data[:5] + data[13:]
            meta['opt'] = opt_
            if rng.chance(2, 3):
                cases.append({'line': 'lzma_dec opt=%s mem=%d in=%s' % (opt_, m, hx(d_)), 'meta': meta, 'base': base, 'true_out': s['out']})
            else:
                lens = chunkings(rng, len(d_), rng.choice(['whole', 'random', 'single']))
                allow_ = 1 if (okind == 'rfh' and valid and rng.chance(1, 3)) else 0
                cases.append({'line': 'stream opt=%s mem=%d allow=%d calls=%s' % (opt_, m, allow_, stream_calls(d_, lens)), 'meta': meta, 'base': base, 'true_out': s['out'], 'stream': True})
            ck.count('m_vs_need_' + ('lt' if m < need else 'eq' if m == need else 'gt'))
    # the raw decoder takes the limit as a constructor argument; tiny dictionaries make need = dict after a few bytes
    raw = []
    reqs, metas = [], []
    for k in range(40 if quick else 300):
        lc, lp, pb = rand_props(rng)
        d = rng.choice([1, 2, 5, 8, 64, 4096])
        pbld = random_program(rng, rng.range(1, 60), d, lit_bias=2)
        reqs.append('ref_payload lc=%d lp=%d pb=%d window=%d prog=%s' % (lc, lp, pb, d, pbld.text(True)))
        metas.append(((lc, lp, pb), d, pbld.n))
    for enc, (pr, d, T) in zip(ref_encode(reqs), metas):
        if enc is None: raise InfraError('reference encoder rejected a C10 program')
        need = min(d, T)
        for m_ in sorted(set(x for x in [0, need - 1, need, need + 1, d] if x >= 0)):
            raw.append({'line': 'raw_lzma lc=%d lp=%d pb=%d dict=%d size=none mem=%d ops=d:%s' % (pr[0], pr[1], pr[2], d, m_, hx(enc[0])),
                        'meta': {'need': need, 'dict': d, 'T': T, 'm': m_, 'api': 'raw'}, 'raw_out': enc[1]})
            ck.count('raw_m_vs_need_' + ('lt' if m_ < need else 'eq' if m_ == need else 'gt'))
            if rng.chance(1, 2):
                # built with a small declared size (within the limit), then reset to another size / to end-marker mode: same limit
                small_ = rng.choice([0, 1, max(0, m_ - 1), m_])
                raw.append({'line': 'raw_lzma lc=%d lp=%d pb=%d dict=%d size=%d mem=%d ops=%s;d:%s' % (pr[0], pr[1], pr[2], d, small_, m_, rng.choice(['rn', 'rn', 'rs:%d' % (T + 5) + ';rn']), hx(enc[0])),
                            'meta': {'need': need, 'dict': d, 'T': T, 'm': m_, 'api': 'raw', 'reset': True}, 'raw_out': enc[1]})
                ck.count('raw_limit_after_reset')
    run_both(ck, raw)
    for c in raw:
        ck.note_case(c['line'])
        def oracle_raw(c):
            m = c['meta']; parts = c['r'].get('res', '').split(';')
            if 'panic' in c['r'].get('res', ''): return 'raw decoder panicked under a memory limit'
            if len(parts) < 2: return None
            dpart = [x for x in parts if x.startswith('d:')]
            if not dpart: return None
            v, out = dpart[-1].split(':')[1], unhx(dpart[-1].split(':')[2])
            if m['need'] <= m['m']:
                if v != 'ok' or out != c['raw_out']: return 'raw decoder: limit %d >= needed window %d but the stream was not decoded exactly' % (m['m'], m['need'])
            else:
                if v != 'err': return 'raw decoder: limit %d < needed window %d but decoding did not fail' % (m['m'], m['need'])
                if not is_prefix(out, c['raw_out']): return 'raw decoder: output under a memory limit is not a prefix'
            return None
        judge(ck, c, ['res'], oracle_raw, 'both')
    run_both(ck, cases)
    for c in cases:
        if 'base' not in c:
            judge(ck, c, ['verdict', 'out', 'pos'], None, 'both'); continue
        m = c['meta']
        ck.note_case(c['line'], abs(m['m'] - m['need']) <= 2 or abs(m['m'] - m['dict']) <= 2)
        def oracle(c):
            r, b, m = c['r'], c['base']['r'], c['meta']
            if c.get('stream'):
                calls = r.get('res', '').split(';')
                v = 'panic' if any('panic' in x for x in calls) else ('ok' if calls[-1] == 'x:ok' and not any(x.startswith('W:err') for x in calls) else 'err')
            else:
                v = r.get('verdict')
            out = unhx(r.get('out', '-'))
            if v == 'panic': return 'panic under a memory limit'
            if m['valid']:
                if m['need'] <= m['m']:
                    if v != b.get('verdict') or (v == 'ok' and r.get('out') != b.get('out')):
                        return 'limit %d >= needed window %d but the result differs from the unlimited run' % (m['m'], m['need'])
                else:
                    if v != 'err': return 'limit %d < needed window %d but decoding did not fail' % (m['m'], m['need'])
                    if not is_prefix(out, c['true_out']): return 'output under a memory limit is not a prefix of the unlimited output'
                # the window buffer itself must stay within the limit (slack: Vec growth doubling + probability tables etc.)
                peak = int(r.get('peak', 0))
                fixed = 2 * 768 * 2 * (1 << 12) + 200000 + 4 * len(c['line'])
                if peak > 2 * min(m['m'], m['dict']) + fixed + 2 * m['T']:
                    return 'peak heap %d is out of proportion to the memory limit %d' % (peak, m['m'])
            return None
        judge(ck, c, ['res', 'out'] if c.get('stream') else ['verdict', 'out', 'pos'], oracle, 'both')

# ------------------------------------------------------------------ C11: consumed position
@prop('C11', 'well-formed payloads x trailing bytes of length 0-40 x reader kinds (slice, Cursor, BufReader capacities 1-64, fragmenting BufRead): size-bounded LZMA and LZMA2 must leave the reader right after the payload; LZMA with end marker and XZ must reject any trailing byte; non-trivial = trailing bytes present')
def run_C11(ck):
    rng = Rng(ck.seed).fork('C11')
    quick = ck.tier == 'quick'
    cases = []
    RD = lambda: rng.choice(['all', '1', '2,9', 'std:slice', 'std:cursor', 'std:buf:%d' % rng.range(1, 64), 'std:buf:1'])
    for s in gen_lzma_streams(rng, 120 if quick else 1000, big_every=0, max_syms=40):
        tl = rng.choice([0, 1, 2, 5, 19, 20, 21, 40])
        trail = rng.choice([rng.bytes(tl), bytes(tl), bytes(tl) + rng.bytes(1) if tl else b''])     # random, all-zero, zeros then one byte
        b = s['bytes']
        if s['n'] == 0 and rng.chance(1, 2): pass
        if s['style'] == 'sized':
            cases.append({'line': 'lzma_dec opt=rfh in=%s rd=%s' % (hx(b + trail), RD()), 'meta': {'kind': 'lzma_sized', 'trail': len(trail), 'n': s['n']}, 'expect_pos': len(b), 'expect_out': s['out']})
            cases.append({'line': 'lzma_dec opt=up:%d in=%s rd=%s' % (s['n'], hx(b[:5] + b[13:] + trail), RD()), 'meta': {'kind': 'lzma_sized_up', 'trail': len(trail), 'n': s['n']}, 'expect_pos': len(b) - 8, 'expect_out': s['out']})
            # the caller supplies the size and the 8 header bytes are skipped whatever they hold (all ones = "unknown", zero, garbage)
            fld = rng.choice([b'\xff' * 8, b'\xff' * 8, bytes(8), rng.bytes(8), struct.pack('<Q', s['n'] + 1)])
            cases.append({'line': 'lzma_dec opt=rhp:%d in=%s rd=%s' % (s['n'], hx(b[:5] + fld + b[13:] + trail), RD()), 'meta': {'kind': 'lzma_sized_rhp', 'trail': len(trail), 'n': s['n'], 'field': hx(fld)}, 'expect_pos': len(b), 'expect_out': s['out']})
        elif s['style'] == 'marker':
            cases.append({'line': 'lzma_dec opt=rfh in=%s rd=%s' % (hx(b + trail), RD()), 'meta': {'kind': 'lzma_marker', 'trail': len(trail)}, 'must_err': len(trail) > 0, 'expect_out': s['out']})
        ck.count('lzma_' + s['style'])
    pool = gen_lzma2_streams(rng, 80 if quick else 500, [65536, 131072, 262144, 65537] if quick else [65536 * k_ for k_ in range(1, 9)] + [65537, 131073])
    for s in pool:
        tl = rng.choice([0, 1, 3, 8, 40])
        trail = rng.choice([rng.bytes(tl), bytes(tl)])
        cases.append({'line': 'lzma2_dec in=%s rd=%s' % (hx(s['bytes'] + trail), RD()), 'meta': {'kind': 'lzma2', 'trail': len(trail)}, 'expect_pos': len(s['bytes']), 'expect_out': s['out']})
        ck.count('lzma2')
    # chunks of 1 MiB and more (bit 4 of the control byte is the top bit of the size), followed by trailing bytes
    breqs_ = []
    for size_ in ([1048577, 2097152] if quick else [1048576, 1048577, 1572864, 2031617, 2097152]):
        pb_ = ProgBuilder(None); exact_size_syms(pb_, size_)
        breqs_.append('ref_lzma2 chunks=Z3:3,0,2:0:%s' % pb_.text())
    for e_ in ref_encode(breqs_):
        if e_ is None: raise InfraError('reference serialiser rejected a big C11 chunk')
        for trail in (b'', b'\x00\x01\x02'):
            cases.append({'line': 'lzma2_dec in=%s rd=%s' % (hx(e_[0] + trail), 'all' if trail else 'std:buf:7'), 'meta': {'kind': 'lzma2', 'trail': len(trail), 'big': len(e_[1])}, 'expect_pos': len(e_[0]), 'expect_out': e_[1]})
            ck.count('lzma2_chunk_of_1MiB_or_more')
    for f in gen_xz_files(rng, 60 if quick else 400, [p for p in pool if len(p['bytes']) < 3000]):
        trail = rng.bytes(rng.choice([0, 1, 2, 4, 12])) if rng.chance(3, 4) else bytes(rng.choice([1, 4, 8]))
        cases.append({'line': 'xz_dec in=%s rd=%s' % (hx(f['bytes'] + trail), RD()), 'meta': {'kind': 'xz', 'trail': len(trail)}, 'must_err': len(trail) > 0, 'expect_out': f['out']})
        ck.count('xz')
        # trailing bytes that are themselves a complete .xz stream (the file again; with stream padding in between): still trailing bytes
        for ti_, trail2 in enumerate((f['bytes'], bytes(4) + f['bytes'], f['bytes'][:12])):
            cases.append({'line': 'xz_dec in=%s rd=%s' % (hx(f['bytes'] + trail2), ['all', '1', 'std:buf:7'][ti_]), 'meta': {'kind': 'xz', 'trail': len(trail2), 'trail_is': ['xz_stream', 'padding+xz_stream', 'xz_header'][ti_]}, 'must_err': True, 'expect_out': f['out']})
            ck.count('xz_followed_by_xz')
    # the degenerate payload: a size-bounded member of size 0 still owns its five coder bytes
    for lc, lp, pb in [(3, 0, 2), (0, 0, 0)]:
        for trail in [b'', b'\x01\x02\x03\x04\x05\x06\x07']:
            hdr = bytes([lc + 9 * (lp + 5 * pb)]) + struct.pack('<I', 4096) + struct.pack('<Q', 0)
            cases.append({'line': 'lzma_dec opt=rfh in=%s rd=%s' % (hx(hdr + bytes(5) + trail), RD()), 'meta': {'kind': 'lzma_sized_empty', 'trail': len(trail)}, 'expect_pos': 18, 'expect_out': b''})
            cases.append({'line': 'raw_lzma lc=%d lp=%d pb=%d dict=4096 size=0 ops=d:%s' % (lc, lp, pb, hx(bytes(5) + trail)), 'meta': {'kind': 'raw_sized_empty', 'trail': len(trail)}, 'raw_pos': 5})
    # a reused raw decoder whose size mode is switched by reset: bounded -> end marker (reset(Some(None))) and back; the
    # member is followed by foreign bytes, and the result (verdict, output, reader position) must be that of a fresh decoder
    reqs, metas = [], []
    for k in range(12 if quick else 80):
        lc, lp, pb = rand_props(rng)
        pbld = random_program(rng, rng.range(1, 30), 4096, lit_bias=2)
        marker = rng.chance(1, 2)
        reqs.append('ref_payload lc=%d lp=%d pb=%d window=4096 prog=%s' % (lc, lp, pb, pbld.text(marker)))
        metas.append(((lc, lp, pb), pbld.n, marker))
    for enc, (props, n, marker) in zip(ref_encode(reqs), metas):
        if enc is None: raise InfraError('ref encoder rejected a C11 raw program')
        lc, lp, pb = props
        trail = rng.choice([b'', rng.bytes(rng.range(1, 25)), bytes(rng.range(1, 8))])
        want = 'none' if marker else str(n)
        reset = 'rn' if want == 'none' else 'rs:%s' % want
        fresh = {'line': 'raw_lzma lc=%d lp=%d pb=%d dict=4096 size=%s ops=d:%s' % (lc, lp, pb, want, hx(enc[0] + trail)), 'meta': {'kind': 'raw_fresh', 'trail': len(trail)}, 'raw_pair': True}
        cases.append(fresh)
        # always: previously bounded at exactly the member's length (the stale bound that would make a missed mode switch invisible
        # in the output), and one other starting mode
        for start in (str(n), rng.choice(['none', str(n + 1), '0', str(max(0, n - 1))])):
            reused = {'line': 'raw_lzma lc=%d lp=%d pb=%d dict=4096 size=%s ops=%s;d:%s' % (lc, lp, pb, start, reset, hx(enc[0] + trail)), 'meta': {'kind': 'raw_reused', 'trail': len(trail), 'start': start, 'reset': reset}, 'raw_pair': True, 'fresh': fresh}
            cases.append(reused); ck.count('raw_reset_size_mode')
    run_both(ck, cases)
    for c in cases:
        ck.note_case(c['line'], c['meta']['trail'] > 0)
        if c.get('raw_pair'):
            def oracle_pair(c):
                if 'fresh' not in c: return None
                a = c['r'].get('res', '').split(';')[-1]; f_ = c['fresh']['r'].get('res', '').split(';')[-1]
                if a != f_: return 'after %s the decoder consumed / returned %s where a fresh decoder gives %s' % (c['meta']['reset'], a[:60], f_[:60])
                return None
            judge(ck, c, ['res'], oracle_pair, 'both'); continue
        def oracle(c):
            r = c['r']
            if 'raw_pos' in c:
                parts = r.get('res', '').split(';')
                if len(parts) < 2 or not parts[1].startswith('d:ok:'): return 'empty size-bounded payload rejected'
                if int(parts[1].split(':')[3]) != c['raw_pos']: return 'raw decoder left the reader at %s instead of %d' % (parts[1].split(':')[3], c['raw_pos'])
                return None
            v = r.get('verdict')
            if c.get('must_err'):
                return None if v == 'err' else 'trailing bytes after a self-terminating stream were not rejected (%s)' % v
            if v != 'ok': return 'payload followed by %d foreign bytes was rejected' % c['meta']['trail']
            if unhx(r.get('out', '-')) != c['expect_out']: return 'output differs'
            if 'expect_pos' in c and int(r.get('pos', -1)) != c['expect_pos']:
                return 'reader left at %s instead of %d (payload end)' % (r.get('pos'), c['expect_pos'])
            return None
        judge(ck, c, ['res'] if 'raw_pos' in c else ['verdict', 'out', 'pos'], oracle, 'both', premise_guard=True)

# ------------------------------------------------------------------ C12: I/O faults
@prop('C12', 'valid inputs for the six one-shot entry points and the streaming decoder x {read fault at every refill k, write fault at every write call k, failing flush, sinks accepting 1 / few bytes per write}; fault positions are enumerated exhaustively per input from the call counts of the fault-free run; non-trivial = the fault position lies inside the run',
      ['faults are injected at the BufRead refill / Write::write call granularity of the harness reader and sink'])
def run_C12(ck):
    rng = Rng(ck.seed).fork('C12')
    quick = ck.tier == 'quick'
    bases = []
    lz = gen_lzma_streams(rng, 6 if quick else 30, big_every=3, max_syms=30) + gen_wrap_streams(rng, 1 if quick else 4, ('marker', 'sized', 'sized+marker'))
    l2 = gen_lzma2_streams(rng, 5 if quick else 25)
    xzs = gen_xz_files(rng, 5 if quick else 25, [p for p in l2 if len(p['bytes']) < 3000] or l2)
    for s in lz:
        bases.append(('lzma_dec opt=rfh in=%s' % hx(s['bytes']), 'lzma_dec', s['out']))
        size_ = 'none' if s['style'] == 'marker' else str(s['n'])
        if rng.chance(1, 2): bases.append(('lzma_dec opt=rhp:%s in=%s' % (size_, hx(s['bytes'][:5] + junk_field(rng) + s['bytes'][13:])), 'lzma_dec', s['out']))
        else: bases.append(('lzma_dec opt=up:%s in=%s' % (size_, hx(s['bytes'][:5] + s['bytes'][13:])), 'lzma_dec', s['out']))
    for s in l2: bases.append(('lzma2_dec in=%s' % hx(s['bytes']), 'lzma2_dec', s['out']))
    for f in xzs: bases.append(('xz_dec in=%s' % hx(f['bytes']), 'xz_dec', f['out']))
    # tiny members under the second and third header option with an all-zero / all-ones ignored field: if an error while reading
    # the header were swallowed, the bytes that follow would still decode to *something* of the requested size
    tiny_ = ref_encode(['ref_lzma lc=3 lp=0 pb=2 dict=4096 size=%d delta=0 prog=%s' % (n_, '.'.join('L%d' % rng.range(1, 255) for _ in range(n_))) for n_ in (1, 1, 2, 3)])
    for e_, n_, fld_ in zip(tiny_, (1, 1, 2, 3), (bytes(8), b'\xff' * 8, bytes(8), rng.bytes(8))):
        if e_ is None: raise InfraError('reference encoder rejected a tiny program')
        bases.append(('lzma_dec opt=rhp:%d in=%s' % (n_, hx(e_[0][:5] + fld_ + e_[0][13:])), 'lzma_dec', e_[1]))
        bases.append(('lzma_dec opt=up:%d in=%s' % (n_, hx(e_[0][:5] + e_[0][13:])), 'lzma_dec', e_[1]))
    # inputs that decode to nothing: the sink still has to be flushed and a failing flush reported
    empties = ref_encode(['ref_lzma lc=3 lp=0 pb=2 dict=4096 size=none delta=0 prog=E', 'ref_lzma lc=0 lp=2 pb=1 dict=65536 size=0 delta=0 prog=-',
                          'ref_lzma lc=3 lp=0 pb=2 dict=4096 size=0 delta=0 prog=E'])
    if any(e is None for e in empties): raise InfraError('reference encoder rejected an empty program')
    for e in empties: bases.append(('lzma_dec opt=rfh in=%s' % hx(e[0]), 'lzma_dec', b''))
    # outputs that end exactly on a window boundary (the circular buffer has just been flushed / is exactly full)
    wreqs = []
    for laps in (1, 2):
        pbld = random_program(rng, rng.range(1, 30), 4096, lit_bias=2)
        exact_size_syms(pbld, 4096 * laps - pbld.n)
        wreqs.append('ref_lzma lc=3 lp=0 pb=2 dict=4096 size=%s delta=0 prog=%s' % (rng.choice(['none', str(pbld.n)]), pbld.text(True)))
    for e in ref_encode(wreqs):
        if e is None: raise InfraError('reference encoder rejected a window-boundary program')
        bases.append(('lzma_dec opt=rfh in=%s' % hx(e[0]), 'lzma_dec', e[1]))
    bases.append(('lzma2_dec in=00', 'lzma2_dec', b''))
    bases.append(('xz_dec in=%s' % hx(xz_file([], 1)), 'xz_dec', b''))
    bases.append(('xz_dec in=%s' % hx(xz_file([XzBlock(b'\x00', b'')], 4)), 'xz_dec', b''))
    for n in ([0, 1, 40, 300] if quick else [0, 1, 40, 300, 5000, 70000]):
        data = rng.bytes(n)
        bases.append(('lzma_enc opt=wh:none in=%s' % hx(data), 'lzma_enc', None))
        bases.append(('lzma2_enc in=%s' % hx(data), 'lzma2_enc', None))
        bases.append(('xz_enc in=%s' % hx(data), 'xz_enc', None))
    # fault-free runs under a fragmenting reader and a short-writing sink, to learn the call counts
    probes = []
    for line, op, exp in bases:
        for rd, wr in [('all', 'all'), ('7,3', '5,2'), ('1', '1')] if len(line) < 3000 else [('all', 'all'), ('500', '300')]:
            probes.append({'line': '%s rd=%s wr=%s' % (line, rd, wr), 'meta': {'op': op, 'rd': rd, 'wr': wr}, 'op': op, 'exp': exp, 'base': line, 'rd': rd, 'wr': wr})
    run_both(ck, probes)
    # what the encoders emitted must decode back to their input (this is what "the correct output" means for them)
    rt = []
    for p in probes:
        if p['op'].endswith('_enc') and p['r'].get('verdict') == 'ok':
            d = {'line': '%s in=%s' % ({'lzma_enc': 'lzma_dec opt=rfh', 'lzma2_enc': 'lzma2_dec', 'xz_enc': 'xz_dec'}[p['op']], p['r']['out'])}
            p['rt'] = d; rt.append(d)
    run_both(ck, rt)
    cases = []
    eofc = []
    for p in probes:
        ck.note_case(p['line'], False)
        def oracle0(c):
            r = c['r']
            if r.get('verdict') != 'ok': return 'fault-free run failed'
            if c['exp'] is not None and unhx(r['out']) != c['exp']: return 'fault-free output wrong (short-writing sink must still receive everything)'
            if c['op'] in ('lzma_dec', 'lzma2_dec') and int(r.get('fl', 0)) < 1: return 'decoder did not flush the sink on success'
            if 'rt' in c:
                src_data = c['base'].split('in=')[1].split(' ')[0]
                if c['rt']['r'].get('verdict') != 'ok' or c['rt']['r'].get('out') != src_data:
                    return 'encoder output through a %s sink does not decode back to the input' % ('short-writing' if c['wr'] != 'all' else 'normal')
            return None
        judge(ck, p, ['verdict', 'out', 'pos'], oracle0, 'both', io_pattern=True)
        # a fault-free run that merely differs from the model (reported above) is still a usable base for fault injection, as long
        # as it is correct in itself: the fault positions are enumerated from the implementation's own call counts
        if oracle0(p) is not None: continue
        good = unhx(p['r']['out'])
        rc, wc = int(p['r'].get('rc', 0)), int(p['r'].get('wc', 0))
        ks_r = range(rc + 1) if rc <= 60 else sorted(set([0, 1, 2, rc - 1, rc] + [rng.below(rc) for _ in range(40)]))
        ks_w = range(wc + 1) if wc <= 60 else sorted(set([0, 1, 2, wc - 1, wc] + [rng.below(wc) for _ in range(40)]))
        EK = ['other', 'eof', 'wouldblock', 'invalid', 'pipe']      # the kind of the injected error must not matter
        for k in ks_r:
            cases.append({'line': '%s rd=%s wr=%s rfail=%d ekind=%s' % (p['base'], p['rd'], p['wr'], k, EK[(k + len(p['base'])) % 5]), 'meta': {'op': p['op'], 'fault': 'read', 'k': k, 'of': rc}, 'inside': k < rc, 'good': good, 'op': p['op']})
        for k in ks_w:
            cases.append({'line': '%s rd=%s wr=%s wfail=%d ekind=%s' % (p['base'], p['rd'], p['wr'], k, EK[(k + 2 + len(p['base'])) % 5]), 'meta': {'op': p['op'], 'fault': 'write', 'k': k, 'of': wc}, 'inside': k < wc, 'good': good, 'op': p['op']})
        if p['op'] in ('lzma_dec', 'lzma2_dec'):
            cases.append({'line': '%s rd=%s wr=%s ffail=1' % (p['base'], p['rd'], p['wr']), 'meta': {'op': p['op'], 'fault': 'flush'}, 'inside': True, 'good': good, 'op': p['op']})
        if p['op'] in ('lzma_dec', 'lzma2_dec', 'xz_dec') and p['rd'] != 'all' or p['op'] in ('lzma_dec', 'xz_dec'):
            # a fault at the END-OF-INPUT probe (the fill_buf made when everything has been consumed): judged by its own oracle,
            # the model's source does not count that call (ef=1 in the result tells that the fault was delivered)
            for ek_ in ('other', 'eof'):
                eofc.append({'line': '%s rd=%s wr=%s efail=1 ekind=%s' % (p['base'], p['rd'] if p['rd'] != 'all' else '64', p['wr'], ek_), 'meta': {'op': p['op'], 'fault': 'eof-probe', 'ekind': ek_}, 'good': good, 'op': p['op']})
        ck.count('op_' + p['op'])
    rs_ = run_impl([c['line'] for c in eofc])
    for c, r_ in zip(eofc, rs_):
        c['r'] = parse(r_); c['r_raw'] = r_; c['m_raw'] = '(not run: the model does not count the end-of-input probe)'
        ck.count('eof_probe_fault_delivered' if c['r'].get('ef') == '1' else 'eof_probe_never_made')
        ck.note_case(c['line'], c['r'].get('ef') == '1')
        v = c['r'].get('verdict')
        if v in ('panic', 'hang', 'abort'):
            ck.violation('oracle', 'a fault at the end-of-input probe caused a %s' % v, replay_dict(c))
        elif c['r'].get('ef') == '1' and v == 'ok':
            ck.violation('oracle', 'the read made to probe for the end of the input failed (%s) but the operation reported success' % c['meta']['ekind'], replay_dict(c))
        elif not is_prefix(unhx(c['r'].get('out', '-')), c['good']):
            ck.violation('oracle', 'sink content is not a prefix of the correct output after a fault at the end-of-input probe', replay_dict(c))
    # the streaming decoder with a failing / short-writing sink
    for s in lz:
        b = s['bytes']
        for wr, wf in [('all', 'none'), ('1', 'none'), ('3', '0'), ('1', str(rng.below(max(1, s['n']))))]:
            lens = chunkings(rng, len(b), 'random')
            cases.append({'line': 'stream opt=rfh calls=%s wr=%s wfail=%s' % (stream_calls(b, lens), wr, wf), 'meta': {'op': 'stream', 'fault': 'write' if wf != 'none' else 'none', 'k': wf}, 'stream': True, 'good': s['out'], 'inside': None, 'op': 'stream'})
        # a sink whose flush fails, with explicit flush calls between the writes
        lens = chunkings(rng, len(b), 'random')
        calls = []
        for p_ in pieces(b, lens):
            calls.append('W:%s' % hx(p_))
            if rng.chance(1, 2): calls.append('f')
        calls += ['f', 'x']
        cases.append({'line': 'stream opt=rfh calls=%s wr=%s ffail=1' % (';'.join(calls), rng.choice(['all', '2'])), 'meta': {'op': 'stream', 'fault': 'flush'}, 'stream': True, 'good': s['out'], 'inside': None, 'op': 'stream', 'flushfail': True})
    run_both(ck, cases)
    for c in cases:
        ck.note_case(c['line'], bool(c['inside']))
        def oracle(c):
            r = c['r']
            if c.get('stream'):
                calls = r.get('res', '').split(';')
                if any('panic' in x for x in calls): return 'streaming decoder panicked under a sink fault'
                out = unhx(r.get('out', '-'))
                if not is_prefix(out, c['good']): return 'sink content is not a prefix of the correct output'
                if calls[-1] == 'x:ok' and not any(x.startswith('W:err') for x in calls) and out != c['good']: return 'success but the sink does not hold the complete output'
                return None
            v, out = r.get('verdict'), unhx(r.get('out', '-'))
            if v == 'panic' or v == 'hang': return 'I/O fault caused a %s' % v
            if not is_prefix(out, c['good']): return 'bytes accepted by the sink before the failure are not a prefix of the correct output'
            if c['inside'] and v == 'ok': return 'an I/O call failed (%s #%s) but the operation reported success' % (c['meta']['fault'], c['meta'].get('k'))
            if v == 'ok' and out != c['good']: return 'success without the complete output in the sink'
            return None
        judge(ck, c, ['res', 'out'] if c.get('stream') else ['verdict', 'out'], oracle, 'both', io_pattern=True)

# ------------------------------------------------------------------ C13: reader fragmentation
@prop('C13', 'inputs (well-formed, truncated, corrupted, mutated containers incl. non-zero padding with recomputed CRCs) for the three one-shot decoders x reader policies (whole, 1 byte, BufReader capacities 1..n, cyclic short-read patterns): verdict, output and consumed count must be identical across policies and equal to the model; non-trivial = policy other than whole')
def run_C13(ck):
    rng = Rng(ck.seed).fork('C13')
    quick = ck.tier == 'quick'
    inputs = []
    BOUNDARY = {}
    for s in gen_lzma_streams(rng, 25 if quick else 200, big_every=9, max_syms=40) + gen_wrap_streams(rng, 2 if quick else 10, ('marker', 'sized', 'sized+marker')):
        for kind, data, opt in lzma_variants(rng, s):
            inputs.append(('lzma_dec opt=%s in=%s' % (opt, hx(data + (rng.bytes(5) if kind == 'valid' and s['style'] == 'sized' else b''))), kind))
            if kind == 'trailing' or (kind == 'valid' and s['style'] == 'sized'):
                # remember where the payload ends: a reader whose buffer boundary falls exactly there is one of the policies
                BOUNDARY[inputs[-1][0]] = len(s['bytes'])
    pool = gen_lzma2_streams(rng, 25 if quick else 150)
    for s in pool:
        b = s['bytes']
        inputs.append(('lzma2_dec in=%s' % hx(b + rng.bytes(rng.below(4))), 'valid'))
        inputs.append(('lzma2_dec in=%s' % hx(b[:rng.range(0, len(b))]), 'truncated'))
        inputs.append(('lzma2_dec in=%s' % hx(corrupt(rng, b)), 'corrupt'))
    # a compressed chunk that declares a larger compressed size than its payload needs (the decoder stops at the declared
    # uncompressed size and carries on with whatever follows): the result must still not depend on the refill pattern
    for s in pool:
        b = s['bytes']
        lz = [w for w in walk_lzma2(b) if w['kind'] == 'lzma']
        for _ in range(2 if lz else 0):
            w = rng.choice(lz)
            room = min(65536 - w['payload_len'], 300)
            if room < 1: continue
            k = rng.range(1, min(room, 40)) if rng.chance(3, 4) else rng.range(1, room)
            at = w['off'] + 3
            mod = b[:at] + struct.pack('>H', w['payload_len'] + k - 1) + b[at + 2:]
            if rng.chance(1, 2):
                # the slack really is there: k filler bytes after the payload
                e = w['off'] + w['hdr_len'] + w['payload_len']
                mod = mod[:e] + (bytes(k) if rng.chance(1, 2) else rng.bytes(k)) + mod[e:]
            inputs.append(('lzma2_dec in=%s' % hx(mod), 'slack'))
    # a copy reaching data from before a mid-stream dictionary reset: rejected by a correct decoder whatever the reader does;
    # a decoder whose reset handling depends on what happens to be buffered shows here
    for b in gen_l2_badcopy_streams(rng, 20 if quick else 120):
        inputs.append(('lzma2_dec in=%s' % hx(b), 'copy_across_reset'))
    small = [p for p in pool if len(p['bytes']) < 2000] or pool
    xzf_ = gen_xz_files(rng, 25 if quick else 150, small)
    # files whose check type the crate does not support (SHA-256 = 10 with its 32-byte field, and ids with 4/8/16/64-byte fields):
    # whatever is done about the check field must not depend on how much the reader has buffered
    for fi_, f in enumerate([f for f in xzf_ if f['blocks']][:8 if quick else 40]):
        for cid in ((10, 2), (10, 7), (10, 13), (10, 5))[fi_ % 4]:
            inputs.append(('xz_dec in=%s' % hx(xz_file(f['blocks'], cid, mb_width=f['mbw'])), 'unsupported_check'))
    for f in xzf_:
        inputs.append(('xz_dec in=%s' % hx(f['bytes']), 'valid'))
        for desc, m in xz_mutants(rng, f, 6):
            inputs.append(('xz_dec in=%s' % hx(m), 'mutant'))
        inputs.append(('xz_dec in=%s' % hx(f['bytes'][:rng.range(0, len(f['bytes']))]), 'truncated'))
        inputs.append(('xz_dec in=%s' % hx(corrupt(rng, f['bytes'])), 'corrupt'))
        # bytes after the footer: zero "stream padding" in and out of 4-byte alignment, a second stream, garbage
        inputs.append(('xz_dec in=%s' % hx(f['bytes'] + bytes(rng.choice([1, 2, 3, 4, 4, 8, 8, 12, 16]))), 'stream_padding'))
        inputs.append(('xz_dec in=%s' % hx(f['bytes'] + rng.choice([rng.bytes(rng.range(1, 9)), bytes(4) + f['bytes'], f['bytes']])), 'after_footer'))
        # non-zero bytes at various places of the header padding, CRC recomputed
        if f['blocks'] and f['blocks'][0].header_pad:
            for _ in range(3):
                j = rng.below(1 << 16)
                inputs.append(('xz_dec in=%s' % hx(xz_file(f['blocks'], f['check'], mb_width=f['mbw'],
                               block_tweaks={0: {'header_padding': lambda p, j=j: p[:j % len(p)] + b'\x01' + p[j % len(p) + 1:]}})), 'hdrpad'))
    cases = []
    for line, kind in inputs:
        grp = []
        pols = ['all', '1', 'std:slice', 'std:buf:1', 'std:buf:%d' % rng.range(2, 6), 'std:buf:%d' % rng.range(7, 64), '%d,%d,%d' % (rng.range(1, 9), rng.range(1, 4), rng.range(1, 30)), '%d' % rng.range(2, 6)]
        extra = []
        if line in BOUNDARY:
            L_ = BOUNDARY[line]
            extra = ['%d,%d' % (L_, rng.range(1, 9)), 'std:buf:%d' % L_] + (['%d,%d' % (L_ - 13, 5)] if L_ > 14 else [])
        for rd in (pols if not quick else pols[:3] + [rng.choice(pols[3:]), rng.choice(pols[3:])]) + extra:
            c = {'line': '%s rd=%s' % (line, rd), 'meta': {'kind': kind, 'rd': rd}, 'grp': grp}
            grp.append(c); cases.append(c)
        ck.count('kind_' + kind)
    run_both(ck, cases)
    for c in cases:
        ck.note_case(c['line'], c['meta']['rd'] != 'all')
        ref = c['grp'][0]['r']
        r = c['r']
        bad = None
        for f in ('verdict', 'out', 'pos'):
            if r.get(f) != ref.get(f):
                bad = f; break
        if bad == 'pos' and r.get('verdict') == 'err' and c['line'].startswith('xz_dec'):
            # genuine but harmless deviation, listed in known_findings.txt: after an Err inside the XZ block
            # header the BufReader in read_block has read ahead by an amount that depends on the refill sizes
            ck.violation('oracle', 'reader position after an XZ block-header error depends on fragmentation',
                         replay_dict(c, {'key': 'xz-block-header-error-position'}))
            bad = None
        elif bad:
            ck.violation('oracle', '%s differs between reader policy %s and %s' % (bad, c['meta']['rd'], c['grp'][0]['meta']['rd']), replay_dict(c))
        # the model does not represent the reader position after an error (DESIGN section 4)
        judge(ck, c, ['verdict', 'out', 'pos'] if r.get('verdict') == 'ok' else ['verdict', 'out'], None, 'both')

# ------------------------------------------------------------------ C14: reset
@prop('C14', 'histories over the raw LzmaDecoder and Lzma2Decoder: (decompress well-formed | corrupt | truncated | reset(None) | reset(Some(None)) | reset(Some(Some n)))* followed by reset and one more decompress, compared with a freshly constructed decoder given the same parameters and the re-specified size; LZMA2 histories mix streams with differing lc/lp/pb and streams whose first compressed chunk carries no property byte; non-trivial = history contains at least one decompress before the final reset')
def run_C14(ck):
    rng = Rng(ck.seed).fork('C14')
    quick = ck.tier == 'quick'
    cases = []
    # ---- LZMA
    for g in range(25 if quick else 200):
        lc, lp, pb = rand_props(rng)
        d = rng.choice([1, 3, 8, 4096, 65536])
        reqs, kinds = [], []
        for k in range(rng.range(2, 5)):
            pbld = random_program(rng, rng.range(1, 40), d, lit_bias=2)
            sized = rng.chance(1, 2)
            reqs.append('ref_payload lc=%d lp=%d pb=%d window=%d prog=%s' % (lc, lp, pb, d, pbld.text(not sized)))
            kinds.append((sized, pbld.n))
        encs = ref_encode(reqs)
        if any(e is None for e in encs): raise InfraError('ref encoder rejected C14 program')
        init_size = rng.choice(['none', str(kinds[0][1])])
        cur = init_size
        ops, hist = [], []
        for (b, out), (sized, n) in list(zip(encs, kinds))[:-1]:
            r = rng.below(4)
            data = b if r == 0 else corrupt(rng, b) if r == 1 else b[:rng.range(0, len(b))] if r == 2 else b
            # make the expected size match the stream now and then, so that successful decodes occur
            if rng.chance(1, 2):
                want = str(n) if sized else 'none'
                ops.append('rn' if want == 'none' else 'rs:%s' % want); cur = want
            ops.append('d:%s' % hx(data)); hist.append(['ok', 'corrupt', 'trunc', 'ok'][r])
            if rng.chance(1, 3): ops.append('r')
        (b, out), (sized, n) = encs[-1], kinds[-1]
        want = str(n) if sized else 'none'
        final_reset = rng.choice(['r', 'rn' if want == 'none' else 'rs:%s' % want])
        fin_size = cur if final_reset == 'r' else want
        probe = b if rng.chance(3, 4) else corrupt(rng, b)
        reused = {'line': 'raw_lzma lc=%d lp=%d pb=%d dict=%d size=%s ops=%s' % (lc, lp, pb, d, init_size, ';'.join(ops + [final_reset, 'd:%s' % hx(probe)])), 'meta': {'api': 'lzma', 'history': hist, 'final_reset': final_reset}}
        fresh = {'line': 'raw_lzma lc=%d lp=%d pb=%d dict=%d size=%s ops=d:%s' % (lc, lp, pb, d, fin_size, hx(probe)), 'meta': {'api': 'lzma', 'fresh': True}}
        reused['fresh'] = fresh
        cases += [reused, fresh]; ck.count('lzma_histories')
    # ---- a decode that fails inside its first symbols (input cut 5..9 bytes into the payload: some probability cells are already
    #      updated when the error strikes), then reset, then the complete stream: must equal a fresh decoder
    for g in range(8 if quick else 60):
        lc, lp, pb = rand_props(rng)
        pbld = random_program(rng, rng.range(3, 40), 4096, lit_bias=2)
        e = ref_encode(['ref_payload lc=%d lp=%d pb=%d window=4096 prog=%s' % (lc, lp, pb, pbld.text(True))])[0]
        if e is None: raise InfraError('ref encoder rejected a C14 program')
        b = e[0]
        fresh = {'line': 'raw_lzma lc=%d lp=%d pb=%d dict=4096 size=none ops=d:%s' % (lc, lp, pb, hx(b)), 'meta': {'api': 'lzma', 'fresh': True}}
        cases.append(fresh)
        # special sizes given to reset vs. given to the constructor (all-ones is a size like any other for the raw decoder)
        for sz in (ALL_ONES, 0, pbld.n, pbld.n + 1):
            fr_ = {'line': 'raw_lzma lc=%d lp=%d pb=%d dict=4096 size=%d ops=d:%s' % (lc, lp, pb, sz, hx(b)), 'meta': {'api': 'lzma', 'fresh': True}}
            for init in ('none', '3'):
                ru_ = {'line': 'raw_lzma lc=%d lp=%d pb=%d dict=4096 size=%s ops=rs:%d;d:%s' % (lc, lp, pb, init, sz, hx(b)), 'meta': {'api': 'lzma', 'history': ['reset_to_special_size'], 'final_reset': 'rs:%d' % sz}}
                ru_['fresh'] = fr_
                cases.append(ru_)
            cases.append(fr_); ck.count('lzma_reset_to_special_size')
        # one history per cut (a later, longer truncated decode could complete a symbol and thereby hide what the first one left behind)
        for c_ in (5, 6, 7, rng.range(8, max(8, len(b) - 1))):
            if c_ >= len(b): continue
            ops = ['d:%s' % hx(b[:c_]), rng.choice(['r', 'rn'])] * rng.choice([1, 1, 2])
            reused = {'line': 'raw_lzma lc=%d lp=%d pb=%d dict=4096 size=none ops=%s' % (lc, lp, pb, ';'.join(ops + ['d:%s' % hx(b)])), 'meta': {'api': 'lzma', 'history': ['cut_at_%d' % c_], 'final_reset': 'r'}}
            reused['fresh'] = fresh
            cases.append(reused); ck.count('lzma_failed_first_symbol_then_reset')
    # ---- cell sweep: history and probe both visit (nearly) every probability cell - all distances 1..300 (every pos_slot,
    #      every reverse-tree cell of the distance coder incl. the last one, the align bits), lengths of all three length
    #      classes, reps, short reps and literals in all automaton states - so that ANY cell left stale by reset shows
    for g in range(6 if quick else 40):
        lc, lp, pb = rand_props(rng)
        d = rng.choice([4096, 65536, 300])
        pa, pb_ = sweep_program(rng, d), sweep_program(rng, d)
        encs = ref_encode(['ref_payload lc=%d lp=%d pb=%d window=%d prog=%s' % (lc, lp, pb, d, q.text(True)) for q in (pa, pb_)])
        if any(e is None for e in encs): raise InfraError('ref encoder rejected a C14 sweep program')
        reused = {'line': 'raw_lzma lc=%d lp=%d pb=%d dict=%d size=none ops=d:%s;r;d:%s' % (lc, lp, pb, d, hx(encs[0][0]), hx(encs[1][0])), 'meta': {'api': 'lzma', 'history': ['sweep'], 'final_reset': 'r'}}
        fresh = {'line': 'raw_lzma lc=%d lp=%d pb=%d dict=%d size=none ops=d:%s' % (lc, lp, pb, d, hx(encs[1][0])), 'meta': {'api': 'lzma', 'fresh': True}}
        reused['fresh'] = fresh
        cases += [reused, fresh]; ck.count('lzma_cell_sweeps')
        # the same two programs as LZMA2 streams on one reused Lzma2Decoder
        lc2, lp2, pb2 = rand_props(rng, lzma2=True)
        e2 = ref_encode(['ref_lzma2 chunks=Z3:%d,%d,%d:0:%s' % (lc2, lp2, pb2, q.text()) for q in (sweep_program(rng, None), sweep_program(rng, None))])
        if all(e is not None for e in e2):
            reused = {'line': 'raw_lzma2 ops=d:%s;r;d:%s' % (hx(e2[0][0]), hx(e2[1][0])), 'meta': {'api': 'lzma2', 'history': ['sweep']}}
            fresh = {'line': 'raw_lzma2 ops=d:%s' % hx(e2[1][0]), 'meta': {'api': 'lzma2', 'fresh': True}}
            reused['fresh'] = fresh
            cases += [reused, fresh]; ck.count('lzma2_cell_sweeps')
    # ---- LZMA2
    pool = gen_lzma2_streams(rng, 30 if quick else 200)
    # streams whose first compressed chunk carries no property byte (leniency of the decoder: uses the state's properties)
    noprops = []
    for k in range(10 if quick else 60):
        pbld = ProgBuilder(None)
        pre = rng.bytes(rng.range(1, 9))
        pbld.n = len(pre)
        for _ in range(rng.range(1, 20)): pbld.random_sym(rng, 2)
        noprops.append('ref_lzma2 chunks=U1:%s/Z%d:-:0:%s' % (hx(pre), rng.choice([0, 1]), pbld.text()))
    noprops = [e for e in ref_encode(noprops) if e is not None]
    for g in range(30 if quick else 250):
        ops, hist = [], []
        for k in range(rng.range(1, 4)):
            s = rng.choice(pool)
            r = rng.below(3)
            b = s['bytes']
            ops.append('d:%s' % hx(b if r == 0 else corrupt(rng, b) if r == 1 else b[:rng.range(1, len(b))])); hist.append(['ok', 'corrupt', 'trunc'][r])
            if rng.chance(1, 3): ops.append('r')
        probe = rng.choice(noprops)[0] if noprops and rng.chance(1, 2) else rng.choice(pool)['bytes']
        reused = {'line': 'raw_lzma2 ops=%s' % ';'.join(ops + ['r', 'd:%s' % hx(probe)]), 'meta': {'api': 'lzma2', 'history': hist}}
        fresh = {'line': 'raw_lzma2 ops=d:%s' % hx(probe), 'meta': {'api': 'lzma2', 'fresh': True}}
        reused['fresh'] = fresh
        cases += [reused, fresh]; ck.count('lzma2_histories')
    run_both(ck, cases)
    for c in cases:
        ck.note_case(c['line'], 'fresh' in c)
        def oracle(c):
            if 'fresh' not in c: return None
            last = c['r'].get('res', '').split(';')[-1]
            f = c['fresh']['r'].get('res', '').split(';')[-1]
            if 'panic' in c['r'].get('res', ''): return 'raw decoder panicked'
            if last.split(':')[:3] != f.split(':')[:3]:
                return 'decompress after reset (%s) differs from a freshly constructed decoder (%s)' % (last[:40], f[:40])
            return None
        def clean_entries(res):
            # keep the entries whose decoder state at the start of the operation is one the model represents exactly:
            # fresh, after a reset, or after a successful decompress
            parts, keep, dirty = res.split(';'), [], False
            for ptxt in parts:
                if ptxt.startswith('d:'):
                    if not dirty: keep.append(ptxt)
                    else: keep.append('d:<state after a failed decompress: not modelled>')
                    if ':err:' in ptxt or ':panic' in ptxt: dirty = True
                else:
                    keep.append(ptxt)
                    if ptxt.startswith('r'): dirty = False
            return ';'.join(keep)
        c['m']['res'] = clean_entries(c['m'].get('res', '')); c['r_full'] = c['r'].get('res', '')
        c['r']['res'] = clean_entries(c['r_full'])
        judge(ck, c, ['res'], None, 'both')
        c['r']['res'] = c['r_full']
        bad = oracle(c)
        if bad: ck.violation('oracle', bad, replay_dict(c))

# ------------------------------------------------------------------ C15: streaming prefixes
@prop('C15', 'well-formed LZMA streams x every / sampled prefix x chunkings, with allow_incomplete: the sink content observed after every write and the value returned by finish must be prefixes of the complete output, finish must succeed once header + 5 bytes are in, and the output must contain what the model derives from the prefix shortened by 64 bytes; non-trivial = prefix cuts the payload')
def run_C15(ck):
    rng = Rng(ck.seed).fork('C15')
    quick = ck.tier == 'quick'
    cases = []
    for s in gen_lzma_streams(rng, 30 if quick else 250, big_every=10, end_styles=('marker', 'sized'), max_syms=60) + gen_wrap_streams(rng, 2 if quick else 12) + gen_costly_literal_streams(rng, 2 if quick else 12) + gen_sweep_streams(rng, [(0, 0, 4), (2, 2, 3)] if quick else [(0, 0, 4), (2, 2, 3), (8, 4, 4), (3, 0, 2)]):
        b = s['bytes']
        size = 'none' if s['style'] == 'marker' else str(s['n'])
        opt, hdr = rng.choice([('rfh', 13), ('rfh', 13), ('rhp:' + size, 13), ('up:' + size, 5), ('up:' + size, 5)])
        if hdr == 5: b = b[:5] + b[13:]
        elif opt.startswith('rhp'): b = b[:5] + junk_field(rng) + b[13:]
        cuts = range(len(b) + 1) if (len(b) < 60 and not quick) or s.get('costly_literal') else sorted(set([0, 1, 4, 5, 9, 10, 12, 13, 17, 18, 19, len(b)] + [rng.range(0, len(b)) for _ in range(8)]))
        for cut in cuts:
            if cut > len(b): continue
            P = b[:cut]
            lens = chunkings(rng, len(P), rng.choice(['whole', 'bytes', 'random', 'single', 'early'])) if len(P) < 600 else chunkings(rng, len(P), rng.choice(['whole', 'single', 'random']))
            if hdr == 5 and len(P) > 12 and rng.chance(1, 2):
                k1 = rng.range(1, 9); lens = [k1, len(P) - k1]          # tiny first write, then a long one
            calls = ';'.join('W:%s;g' % hx(p) for p in pieces(P, lens)) + ';x'
            mem_ = ' mem=%d' % rng.choice([max(s['dict'], 4096), max(s['dict'], 4096) + 1, 1 << 33]) if rng.chance(1, 4) and s['dict'] < (1 << 31) else ''
            if s.get('big') and s['dict'] <= 8192 and s['n'] > max(s['dict'], 4096):
                # output longer than the dictionary: a limit equal to the dictionary is never reached, whatever size is declared
                mem_ = ' mem=%d' % (max(s['dict'], 4096) + (cut % 2))
            # sinks that take only part of what is offered (write_all must deliver the rest), on every wrapping stream and on a third of the others
            wr_ = ' wr=%s' % ['3,1', '1', '1000,7'][cut % 3] if s.get('big') or cut % 3 == 1 else ''
            if wr_: ck.count('short_writing_sink')
            c = {'line': 'stream opt=%s%s allow=1 calls=%s%s' % (opt, mem_, calls, wr_), 'meta': {'cut': cut, 'of': len(b), 'pieces': len(lens), 'opt': opt, 'mem': mem_.strip(), 'wr': wr_.strip()}, 'true_out': s['out'], 'cut': cut, 'need': hdr + 5}
            # what is determined by the input minus the allowed look-ahead
            short = b[:max(0, cut - 64)]
            c['short'] = {'line': 'stream opt=%s%s allow=1 calls=W:%s;x' % (opt, mem_, hx(short)), 'meta': {'aux': 'prefix minus 64'}}
            cases += [c, c['short']]
            ck.count('prefix_in_header' if cut < hdr + 5 else 'prefix_in_payload'); ck.count('opt_' + opt.split(':')[0])
    run_both(ck, cases)
    for c in cases:
        if 'short' not in c:
            judge(ck, c, ['res', 'out'], None, 'both'); continue
        ck.note_case(c['line'], c['need'] <= c['cut'] < c['meta']['of'])
        def oracle(c):
            r = c['r']
            calls = r.get('res', '').split(';')
            out = unhx(r.get('out', '-'))
            if any('panic' in x for x in calls): return 'panic'
            if not is_prefix(out, c['true_out']): return 'streaming output is not a prefix of the complete output'
            if any(x.startswith('W:err') for x in calls): return 'a write of a prefix of a well-formed stream failed'
            if c['cut'] >= c['need'] and calls[-1] != 'x:ok': return 'finish with allow_incomplete failed after header and coder preamble'
            gs = [int(x[2:]) for x in calls if x.startswith('g:')]
            if any(a > b_ for a, b_ in zip(gs, gs[1:])): return 'sink shrank'
            need = len(unhx(c['short']['m'].get('out', '-')))
            if calls[-1] == 'x:ok' and len(out) < need:
                return 'output after %d input bytes (%d) lacks bytes determined 64 input bytes earlier (%d)' % (c['cut'], len(out), need)
            return None
        judge(ck, c, ['res', 'out'], oracle, 'both')

# ------------------------------------------------------------------ C16: latching
@prop('C16', 'call sequences write*/flush*/finish over well-formed, corrupt, invalid-header and over-long inputs (declared size followed by trailing data) under random chunkings, with the sink length sampled after every call; after the first failing write every write must return Ok(0) with the sink unchanged and finish must fail; after the declared size is reached writes consume nothing; non-trivial = sequence contains a failing write or reaches the declared size')
def run_C16(ck):
    rng = Rng(ck.seed).fork('C16')
    quick = ck.tier == 'quick'
    cases = []
    tiny = gen_lzma_streams(rng, 40 if quick else 300, big_every=0, end_styles=('marker',), max_syms=2)
    for t_ in tiny: t_['tiny'] = True
    for s in gen_lzma_streams(rng, 60 if quick else 500, big_every=0, max_syms=40) + tiny:
        b = s['bytes']
        size = 'none' if s['style'] == 'marker' else str(s['n'])
        sopt, hdr = rng.choice([('rfh', 13), ('rfh', 13), ('rhp:' + size, 13), ('up:' + size, 5), ('up:' + size, 5)])
        if s.get('tiny'): sopt, hdr = rng.choice([('up:none', 5), ('up:none', 5), ('rfh', 13)])
        if hdr == 5: b = b[:5] + b[13:]
        elif sopt.startswith('rhp'): b = b[:5] + junk_field(rng) + b[13:]
        variants = [('corrupt', corrupt(rng, b, hdr)), ('bad_header', bytes([rng.choice([225, 225, 226, 255, rng.range(225, 255)])]) + b[1:]), ('valid', b)]
        if s.get('tiny'):
            variants = [('marker_then_garbage', b + rng.bytes(rng.range(1, 6))), ('marker_then_garbage', b + rng.bytes(rng.range(1, 30)))]
        if s['style'] == 'sized':
            variants.append(('overlong', b + rng.bytes(rng.range(1, 400))))
            variants.append(('overlong', b + rng.bytes(rng.range(21, 90))))
        for kind, data in variants:
            for rep in range(2 if kind == 'overlong' else 1):
                how = rng.choice(['random', 'random', 'bytes', 'single', 'early']) if len(data) < 300 else rng.choice(['random', 'single'])
                if kind == 'overlong' and rng.chance(1, 2):
                    k = rng.choice([7, 9, 17, 18, 34, 51, 3, 13])
                    lens = [k] * (len(data) // k + 1)
                elif kind == 'marker_then_garbage' or (hdr == 5 and rng.chance(1, 2)):
                    k1 = rng.range(1, 9)                     # header split across writes: payload bytes stay in the staging buffer
                    lens = [k1] + chunkings(rng, max(0, len(data) - k1), rng.choice(['whole', 'random', 'bytes']))
                else:
                    lens = chunkings(rng, len(data), how)
                calls = []
                for p in pieces(data, lens):
                    if not p and kind == 'overlong': continue
                    # 'W' re-offers what a write did not take (like write_all, but stopping at Ok(0)); 'w' is a single call
                    calls.append('%s:%s' % ('W' if kind in ('overlong', 'valid') or rng.chance(1, 2) else 'w', hx(p))); calls.append('g')
                    if rng.chance(1, 6): calls.append('f')
                    if rng.chance(1, 4): calls.append('o')
                for _ in range(rng.range(1, 3)):
                    calls.append('w:%s' % hx(rng.bytes(rng.range(1, 30)))); calls.append('g'); calls.append('o')
                calls.append('x')
                allow_ = ' allow=1' if kind in ('corrupt', 'bad_header', 'marker_then_garbage') and rng.chance(1, 2) else ''
                cases.append({'line': 'stream opt=%s%s calls=%s' % (sopt, allow_, ';'.join(calls)), 'meta': {'kind': kind, 'style': s['style'], 'n': s['n'], 'opt': sopt, 'allow': bool(allow_)}, 'n': s['n'], 'style': s['style'],
                              'kind': kind, 'true_out': s['out'], 'valid_len': len(b)})
                ck.count('kind_' + kind)
    # the declared size falls strictly inside a match: the copy carries the output past the size without ever equalling it;
    # the size has then been reached, so nothing after the symbols of P1 (plus the 20-byte look-ahead) may be consumed
    reqs, metas = [], []
    for k in range(24 if quick else 200):
        lc, lp, pb = rand_props(rng)
        pbld = random_program(rng, rng.range(1, 25), 4096, lit_bias=rng.choice([1, 3]))
        if pbld.n == 0: pbld.lit(rng.below(256))
        before = pbld.n
        ln = rng.range(3, 60)
        if rng.chance(1, 3) and pbld.reps[0] <= pbld.maxd(): pbld.rep(0, ln)
        else: pbld.match(pick_dist(rng, pbld.maxd()), ln)
        cut = before + rng.range(1, ln - 1)
        p1 = pbld.text(False)
        for _ in range(rng.range(100, 220)): pbld.lit(rng.below(256))
        hdr = 'lc=%d lp=%d pb=%d dict=%d' % (lc, lp, pb, rng.choice([0, 4096, 65536]))
        reqs.append('ref_lzma %s size=%d delta=0 prog=%s' % (hdr, before + ln, p1))
        reqs.append('ref_lzma %s size=%d delta=0 prog=%s' % (hdr, cut, pbld.text(True)))
        metas.append(cut)
    encs = ref_encode(reqs)
    for k, cut in enumerate(metas):
        e1, e2 = encs[2 * k], encs[2 * k + 1]
        if e1 is None or e2 is None: raise InfraError('reference encoder rejected a cut-in-match program')
        l1, b = len(e1[0]), e2[0]
        for sopt, hdr in (('rfh', 13), rng.choice([('rhp:%d' % cut, 13), ('up:%d' % cut, 5)])):
            data = b
            if hdr == 5: data = b[:5] + b[13:]
            elif sopt.startswith('rhp'): data = b[:5] + junk_field(rng) + b[13:]
            lens = chunkings(rng, len(data), rng.choice(['whole', 'random', 'bytes', 'single']))
            if rng.chance(1, 3):
                kk = rng.choice([7, 9, 17, 18, 34, 51, 3, 13]); lens = [kk] * (len(data) // kk + 1)
            calls = []
            for p_ in pieces(data, lens):
                if not p_: continue
                calls.append('W:%s' % hx(p_)); calls.append('g')
            for _ in range(rng.range(1, 3)):
                calls.append('w:%s' % hx(rng.bytes(rng.range(1, 30)))); calls.append('g')
            calls.append('x')
            cases.append({'line': 'stream opt=%s calls=%s' % (sopt, ';'.join(calls)), 'meta': {'kind': 'cut_in_match', 'n': cut, 'opt': sopt}, 'n': cut, 'style': 'cut',
                          'kind': 'cut_in_match', 'true_out': None, 'valid_len': l1 - (13 - hdr)})
            ck.count('kind_cut_in_match')
    # a SINK error in mid-stream (at a window flush of a stream longer than its dictionary), of every error kind: the failed
    # write latches like any other failure
    kinds_ = ['other', 'eof', 'wouldblock', 'invalid', 'pipe']
    for si, s in enumerate(gen_wrap_streams(rng, 2 if quick else 10)):
        b = s['bytes']
        for ki, kind_ in enumerate(kinds_):
            k = [64, 200, 1000][(si + ki) % 3]
            calls = []
            for p_ in pieces(b, [k] * (len(b) // k + 1)):
                if p_: calls.append('%s:%s' % ('W' if (si + ki) % 2 else 'w', hx(p_))); calls.append('g'); calls.append('o')
            calls += ['f', 'w:0011', 'g', 'x']
            for wf in (1, 2):
                cases.append({'line': 'stream opt=rfh calls=%s wr=all wfail=%d ekind=%s' % (';'.join(calls), wf, kind_), 'meta': {'kind': 'sink_error', 'style': s['style'], 'n': s['n'], 'opt': 'rfh', 'ekind': kind_, 'wfail': wf},
                              'n': s['n'], 'style': s['style'], 'kind': 'sink_error', 'true_out': s['out'], 'valid_len': len(b)})
                ck.count('kind_sink_error')
    run_both(ck, cases)
    for c in cases:
        res = c['r'].get('res', '').split(';')
        ck.note_case(c['line'], 'w:err' in res or any(x.startswith('W:err') for x in res) or c['kind'] in ('overlong', 'cut_in_match'))
        def oracle(c):
            calls = c['r'].get('res', '').split(';')
            if any('panic' in x for x in calls): return 'a call sequence panicked'
            failed, glen = False, None
            last_g = 0
            done = False
            for x in calls:
                if x.startswith('g:'):
                    g = int(x[2:])
                    if failed and glen is not None and g != glen: return 'bytes were delivered to the sink after a failed write'
                    if failed and glen is None: glen = g
                    if done and g != c['n']: return 'output changed after the declared size was reached'
                    if c['style'] == 'sized' and g >= c['n'] and c['n'] > 0: done = True
                    if c['style'] == 'sized' and g > c['n']: return 'more bytes than the declared size were delivered'
                    last_g = g
                elif x.startswith('w:') or x.startswith('W:'):
                    if failed and x not in ('w:0', 'W:zero:0', 'W:ok:0'): return 'a write after a failed write returned %s instead of Ok(0)' % x
                    if x == 'w:err' or x.startswith('W:err'): failed = True
                elif x.startswith('o:'):
                    if failed and x != 'o:none': return 'get_output after a failed write still hands out the sink (%s)' % x
                    if not failed and x != 'o:%d' % last_g: return 'get_output disagrees with the sink (%s vs %d bytes)' % (x, last_g)
                elif x.startswith('f:'):
                    if failed and x != 'f:ok': return 'flush after a failed write returned %s' % x
                elif x.startswith('x:'):
                    if failed and x != 'x:err': return 'finish after a failed write did not return an error'
            if c['kind'] == 'cut_in_match':
                eaten = sum(int(x[2:]) for x in calls if x.startswith('w:') and x[2:].isdigit()) + sum(int(x.split(':')[2]) for x in calls if x.startswith('W:') and x.split(':')[2].isdigit())
                if eaten > c['valid_len'] + 20: return 'writes kept consuming input (%d bytes) after a match carried the output past the declared size (reached by input byte %d)' % (eaten, c['valid_len'])
            if c['kind'] == 'overlong':
                # the declared size is reached inside the input: nothing after it may be consumed or change the output
                if calls[-1] != 'x:ok': return 'stream with data after its declared size did not finish successfully'
                if unhx(c['r'].get('out', '-')) != c['true_out']: return 'output changed after the declared size was reached'
                eaten = sum(int(x[2:]) for x in calls if x.startswith('w:') and x[2:].isdigit()) + sum(int(x.split(':')[2]) for x in calls if x.startswith('W:'))
                if eaten > c['valid_len'] + 20: return 'writes kept consuming input (%d bytes) after the declared size was reached at byte %d' % (eaten, c['valid_len'])
            return None
        judge(ck, c, ['res', 'out', 'fl'], oracle, 'both')

# ------------------------------------------------------------------ C07: totality
def mutate_bytes(rng, b):
    """structured mutations: bit flips, byte extremes, 32/64-bit field extremes, truncation, duplication, splicing"""
    if not b: return rng.bytes(rng.range(0, 8))
    m = bytearray(b)
    r = rng.below(8)
    if r == 0:
        for _ in range(rng.range(1, 4)):
            p = rng.below(len(m)); m[p] ^= 1 << rng.below(8)
    elif r == 1:
        p = rng.below(len(m)); m[p] = rng.choice([0, 0xFF, 0x80, 0x7F, 1])
    elif r == 2:
        p = rng.below(len(m)); v = rng.choice([0, 0xFFFFFFFF, 0x80000000, 0x7FFFFFFF, 0x40000001, 1])
        m[p:p + 4] = struct.pack(rng.choice(['<I', '>I']), v)
    elif r == 3:
        p = rng.below(len(m)); v = rng.choice([0, ALL_ONES, 1 << 63, (1 << 63) - 1, 1 << 32, ALL_ONES - 1])
        m[p:p + 8] = struct.pack('<Q', v)
    elif r == 4:
        m = m[:rng.below(len(m) + 1)]
    elif r == 5:
        p, q = sorted([rng.below(len(m) + 1), rng.below(len(m) + 1)])
        m = m[:q] + m[p:q] + m[q:]
    elif r == 6:
        p, q = sorted([rng.below(len(m) + 1), rng.below(len(m) + 1)])
        m = m[:p] + m[q:]
    else:
        p = rng.below(len(m)); m[p:p] = rng.bytes(rng.range(1, 12))
    return bytes(m)

@prop('C07', 'every decoding entry point (LZMA x 5 option forms, LZMA2, XZ, Stream under random chunkings, raw decoders with arbitrary accepted parameters) on uniformly random bytes, structured mutations of well-formed inputs (bit flips, field extremes 0 / 0xFF.. / 2^31 / 2^32-1, truncation, duplication, splicing), headers announcing huge dictionaries/sizes, near-valid XZ/LZMA2 files, and the regression corpus of earlier panics; run in the overflow-checked and in the release build under catch_unwind and a watchdog, peak live heap measured by a counting allocator; non-trivial = input longer than 18 bytes',
      ['real heap and wall-clock time are measured by the harness (allocator, watchdog), not proved; the model proves buffer-length and fuel bounds'])
def run_C07(ck):
    rng = Rng(ck.seed).fork('C07')
    quick = ck.tier == 'quick'
    N = 1 if quick else 8
    lz = gen_lzma_streams(rng, 40 * N, big_every=10, max_syms=40)
    l2 = gen_lzma2_streams(rng, 30 * N)
    xzs = gen_xz_files(rng, 30 * N, [p for p in l2 if len(p['bytes']) < 3000] or l2)
    cases = []
    def add(line, kind):
        cases.append({'line': line, 'meta': {'kind': kind}}); ck.count('kind_' + kind)
    # well-formed inputs of the shapes where an index or slice bound is tightest: every legal LZMA2 properties triple and
    # property changes (table re-sizing), the 0xFFFF-payload chunk, outputs crossing the window with copies straddling the wrap
    for s_ in gen_l2_props_sweep(rng, 40 if quick else 200):
        add('lzma2_dec in=%s' % hx(s_['bytes']), 'valid_props_sweep')
    mp_ = max_packed_stream(rng)
    if mp_: add('lzma2_dec in=%s' % hx(mp_['bytes']), 'valid_max_packed')
    for s_ in gen_wrap_streams(rng, 6 if quick else 30, ('marker', 'sized', 'sized+marker')):
        add('lzma_dec opt=rfh in=%s rd=%s' % (hx(s_['bytes']), rng.choice(['all', '1', 'std:buf:7'])), 'valid_wrap')
        add('stream opt=rfh calls=%s' % stream_calls(s_['bytes'], chunkings(rng, len(s_['bytes']), rng.choice(['random', 'single', 'whole']))), 'valid_wrap_stream')
    OPTS = ['rfh', 'rhp:none', 'rhp:%d', 'up:none', 'up:%d']
    def opt(): 
        o = rng.choice(OPTS)
        return o % rng.choice([0, 1, 100, 1 << 31, (1 << 32) - 1, ALL_ONES - 1]) if '%d' in o else o
    def mem(): return rng.choice(['none', 'none', '0', '1', '4096', str(ALL_ONES)])
    for _ in range(300 * N):
        b = rng.bytes(rng.choice([0, 1, 4, 5, 12, 13, 17, 18, 19, 30, 60, 200]))
        if rng.chance(1, 2) and len(b) >= 13:       # plausible header in front of noise
            b = bytes([rng.below(225)]) + struct.pack('<I', rng.choice([0, 4096, 1 << 20, 0xFFFFFFFF])) + (b'\xff' * 8 if rng.chance(1, 2) else struct.pack('<Q', rng.choice([0, 5, 1 << 40]))) + b[13:]
        add('lzma_dec opt=%s mem=%s in=%s rd=%s' % (opt(), mem(), hx(b), rng.choice(['all', '1', '3,5'])), 'random_lzma')
        add('stream opt=%s mem=%s allow=%d calls=%s' % (opt(), mem(), rng.below(2), stream_calls(b, chunkings(rng, len(b), rng.choice(['whole', 'bytes', 'random', 'early'])))), 'random_stream')
        b2 = bytes([rng.choice([0, 1, 2, 3, 0x7f, 0x80, 0xa0, 0xc0, 0xe0, 0xff])]) + rng.bytes(rng.range(0, 40))
        add('lzma2_dec in=%s' % hx(b2), 'random_lzma2')
        add('xz_dec in=%s' % hx(XZ_MAGIC + rng.bytes(rng.range(0, 60)) if rng.chance(1, 2) else rng.bytes(rng.range(0, 60))), 'random_xz')
        add('raw_lzma lc=%d lp=%d pb=%d dict=%d size=%s mem=%s ops=d:%s;%s;d:%s' % (rng.range(0, 8), rng.range(0, 4), rng.range(0, 4), rng.choice([0, 1, 2, 7, 4096, 0xFFFFFFFF]),
            rng.choice(['none', '0', '3', str(ALL_ONES)]), mem(), hx(rng.bytes(rng.range(0, 40))), rng.choice(['r', 'r', 'rn', 'rs:0', 'rs:3', 'rs:%d' % ALL_ONES]), hx(rng.bytes(rng.range(0, 20)))), 'random_raw')
        add('raw_lzma2 ops=d:%s;r;d:%s' % (hx(b2), hx(rng.bytes(rng.range(0, 20)))), 'random_raw2')
    for s in lz:
        for _ in range(6):
            m = mutate_bytes(rng, s['bytes'])
            add('lzma_dec opt=%s mem=%s in=%s' % (rng.choice(['rfh', 'rfh', opt()]), mem(), hx(m)), 'mut_lzma')
            add('stream opt=rfh allow=%d calls=%s' % (rng.below(2), stream_calls(m, chunkings(rng, len(m), rng.choice(['random', 'early', 'single'])))), 'mut_stream')
            lc, lp, pb = s['props']
            add('raw_lzma lc=%d lp=%d pb=%d dict=%d size=%s ops=d:%s' % (lc, lp, pb, rng.choice([1, 2, 5, 4096]), rng.choice(['none', str(s['n'])]), hx(m[13:])), 'mut_raw')
        # a header announcing a huge dictionary and size in front of a short payload
        b = s['bytes']
        add('lzma_dec opt=rfh in=%s' % hx(b[:1] + b'\xff\xff\xff\xff' + struct.pack('<Q', 1 << 62) + b[13:]), 'huge_header')
        # ... together with a (large) memory limit: the limit bounds what may be buffered, it is not a size to reserve up front
        hb_ = b[:1] + b'\xff\xff\xff\xff' + struct.pack('<Q', 1 << 62) + b[13:]
        add('lzma_dec opt=rfh mem=%d in=%s' % (rng.choice([1 << 28, 1 << 30, 1 << 31, (1 << 32) - 1]), hx(hb_)), 'huge_header_memlimit')
        add('stream opt=rfh mem=%d calls=%s' % (rng.choice([1 << 28, 1 << 30, (1 << 32) - 1]), stream_calls(hb_, chunkings(rng, len(hb_), 'random'))), 'huge_header_memlimit')
    for s in l2:
        for _ in range(6):
            m = mutate_bytes(rng, s['bytes'])
            add('lzma2_dec in=%s rd=%s' % (hx(m), rng.choice(['all', '1'])), 'mut_lzma2')
            add('raw_lzma2 ops=d:%s;d:%s' % (hx(m), hx(s['bytes'])), 'mut_raw2')
    for f in xzs:
        for _ in range(6):
            add('xz_dec in=%s' % hx(mutate_bytes(rng, f['bytes'])), 'mut_xz')
        for desc, m in xz_mutants(rng, f, 10):
            add('xz_dec in=%s' % hx(m), 'near_valid_xz')
        # field extremes with CRCs recomputed
        for bs in (0xFFFFFFFF, 0x40000001, 0x80000001, 0x7FFFFFFF, 0):
            add('xz_dec in=%s' % hx(xz_file(f['blocks'], f['check'], mb_width=f['mbw'], tweak={'backward_size': bs})), 'xz_backward_size')
        add('xz_dec in=%s' % hx(xz_file(f['blocks'], f['check'], mb_width=f['mbw'], tweak={'nrecords': rng.choice([1 << 62, ALL_ONES >> 1])})), 'xz_nrecords')
        if f['blocks']:
            b0 = f['blocks'][0]
            for props in (b'', b'\x16' * 2, b'\x16' * 300):
                try:
                    add('xz_dec in=%s' % hx(xz_file([XzBlock(b0.payload, b0.content, props=props)] + f['blocks'][1:], f['check'], mb_width=f['mbw'])), 'xz_props_len')
                except ValueError: pass
            for v in (1 << 62, (1 << 63) - 1, 0):
                add('xz_dec in=%s' % hx(xz_file([XzBlock(b0.payload, b0.content, with_packed=True, with_unpacked=True, packed_override=v, unpacked_override=v)] + f['blocks'][1:], f['check'])), 'xz_size_extremes')
    for b_ in gen_l2_stale_rep_streams(rng, 9 if quick else 60):
        add('lzma2_dec in=%s' % hx(b_), 'stale_rep_after_dict_reset')
        add('raw_lzma2 ops=d:%s' % hx(b_), 'stale_rep_after_dict_reset')
        add('xz_dec in=%s' % hx(xz_file([XzBlock(b_, b'')], 0)), 'stale_rep_after_dict_reset')
    f0 = next((f for f in xzs if f['blocks']), None)
    if f0:
        for t_, b2_ in blocks_with_header_size_byte(f0['blocks'][0], f0['check']):
            add('xz_dec in=%s' % hx(xz_file([b2_] + f0['blocks'][1:], f0['check'])), 'xz_header_size_byte_exact')
    # regression corpus (earlier panics / accepted garbage): D1, D2
    empty = xz_file([], 0)
    for bs in (0xFFFFFFFF, 0x40000001, 0x80000001):
        add('xz_dec in=%s' % hx(xz_file([], 0, tweak={'backward_size': bs})), 'corpus_D1')
    add('raw_lzma lc=3 lp=0 pb=2 dict=0 size=3 ops=d:%s' % hx(bytes.fromhex('00341949db8564f193b1fffb8fc000')), 'corpus_D2')
    add('lzma_dec opt=rfh in=5d00001000ffffffffffffffff0000000000', 'corpus_D3')
    run_both(ck, cases)
    rel = run_impl([c['line'] for c in cases], release=True)
    for c, rr in zip(cases, rel):
        c['rel_raw'], c['rel'] = rr, parse(rr)
        ck.note_case(c['line'], len(c['line']) > 80)
        def verdicts(r):
            if 'res' in r:
                parts = r['res'].split(';')
                return ['panic' if 'panic' in p else 'x' for p in parts]
            return [r.get('verdict')]
        def oracle(c):
            for which, r in (('overflow-checked', c['r']), ('release', c['rel'])):
                vs = verdicts(r)
                if 'panic' in vs: return 'panic in the %s build' % which
                if 'hang' in vs or r.get('verdict') == 'hang': return 'no termination within the watchdog in the %s build' % which
                peak = int(r.get('peak', 0))
                produced = len(r.get('out', '-')) // 2 + sum(len(p) for p in r.get('res', '').split(';')) // 2
                budget = 16 * (1 << 20) + 8 * (len(c['line']) + produced)
                if peak > budget: return 'peak live heap %d is out of proportion to input+output (%d) in the %s build' % (peak, len(c['line']) // 2 + produced, which)
            a, b = c['r'], c['rel']
            if a.get('verdict') != b.get('verdict') or a.get('out') != b.get('out') or a.get('res') != b.get('res'):
                return 'overflow-checked and release builds disagree'
            if c['meta']['kind'] == 'corpus_D1' and a.get('verdict') != 'err': return 'regression: XZ backward-size wrap accepted'
            if c['meta']['kind'] == 'corpus_D2' and not a.get('res', '').startswith('new:err'): return 'regression: zero dictionary accepted by LzmaDecoder::new'
            if c['meta']['kind'] == 'corpus_D3' and a.get('verdict') != 'err': return 'regression: stream without end marker accepted'
            return None
        judge(ck, c, ['res', 'out'] if 'res' in c['r'] else ['verdict', 'out'], oracle, 'both')
