"""Per-property correspondence checks (see DESIGN.md section 7)."""
import os, json, struct
from lzgen import *

NEEDS_RELEASE = {'C07'}
TRUSTED_BASE = [
    'Coq 8.16.1 kernel (coqc); vm_compute used for finite facts; no native_compute',
    'no axioms declared; Print Assumptions of every property theorem must be "Closed under the global context"',
    'hand-written Gallina model coq/Model/*.v of /repo/src, tied to the code by this differential run (extracted OCaml model vs real crate on the same case files)',
    'format theory coq/Format/*.v (sem, reference encoder, LZMA2 serialiser) as the meaning of "well-formed stream"',
    'extraction with ExtrOcamlBasic only (Extract Inductive for bool, option, unit, list, prod, sumbool; no Extract Constant), OCaml 4.13.1, ocaml/driver.ml',
    'Rust harness /verif/harness (readers, sinks, fault injection, counting allocator, watchdog), gen/*.py, ./check',
    'modelled not verified: CRC functions (section variables in theorems, table-driven instance when run), std::io adapters (BufReader, Take, read_exact, write_all, Bytes), byteorder, 64-bit usize, allocator',
]
COMMON_ASSUMPTIONS = [
    'the model is tied to the code by differential testing only; its strength is bounded by the generators whose distribution is in coverage.input_distribution',
    'io::ErrorKind::Interrupted is not injected (std retries it)',
]
ASSUMPTIONS = {}
RULES = {}
RUN = {}

def prop(pid, rule, assumptions=()):
    def deco(f):
        RUN[pid] = f; RULES[pid] = rule; ASSUMPTIONS[pid] = list(assumptions)
        return f
    return deco

# ------------------------------------------------------------------ generic comparison
def run_both(ck, cases, release=False):
    """cases: list of dicts with 'line'.  Fills c['m'] and c['r'] (parsed results)."""
    lines = [c['line'] for c in cases]
    ms = run_model(lines)
    rs = run_impl(lines, release=release)
    for c, m, r in zip(cases, ms, rs):
        if m.startswith('model-crash') or m.startswith('unknown-op'):
            raise InfraError('model runner: %s on %s' % (m, c['line'][:200]))
        c['m_raw'], c['r_raw'] = m, r
        c['m'], c['r'] = parse(m), parse(r)
        ck.count('compared')
    return cases

def replay_dict(c, extra=None):
    d = {'case': c['line'], 'model_result': c.get('m_raw'), 'impl_result': c.get('r_raw'),
         'meta': c.get('meta', {}),
         'how_to_replay': './check <id> --replay <this file>   (re-runs the case on build/ocaml/modelrun and build/harness-target/debug/lzrs)'}
    if extra: d.update(extra)
    return d

def field_diff(c, fields):
    return [f for f in fields if c['m'].get(f) != c['r'].get(f)]

def judge(ck, c, fields, oracle, direction='both'):
    """Compare model and implementation on [fields].  oracle(c) -> None if the implementation's
    behaviour satisfies the property on this case, else a description of the failure.
    direction: 'both' | 'model_ok' (only model-ok cases must agree) | 'impl_ok' (only impl-ok cases must agree)"""
    bad = oracle(c) if oracle else None
    if bad:
        ck.violation('oracle', bad, replay_dict(c))
        return False
    diff = field_diff(c, fields)
    if not diff:
        return True
    mv, rv = c['m'].get('verdict'), c['r'].get('verdict')
    relevant = (direction == 'both' or (direction == 'model_ok' and mv == 'ok') or (direction == 'impl_ok' and rv == 'ok'))
    if relevant:
        ck.violation('correspondence', 'model and implementation differ on %s' % ','.join(diff), replay_dict(c))
        return False
    ck.drift.append({'case': c['line'][:160], 'fields': diff})
    return True

def replay(pid, path, ck):
    d = json.load(open(path))
    lines = d['case'] if isinstance(d['case'], list) else [d['case']]
    cases = run_both(ck, [{'line': l} for l in lines])
    for c in cases:
        print('case : ' + c['line'][:300])
        print('model: ' + c['m_raw'][:300])
        print('impl : ' + c['r_raw'][:300])
        if c['m_raw'].split(' peak=')[0] != c['r_raw'].split(' peak=')[0]:
            ck.violation('correspondence', 'replayed case still differs', replay_dict(c))

# ------------------------------------------------------------------ stream material shared by several properties
DICT_FIELDS = [0, 1, 4095, 4096, 4097, 8192, 65536, 1 << 20, 0x7FFFFFFF, 0xFFFFFFFF]

def rand_props(rng, lzma2=False):
    if rng.chance(1, 4):
        return (3, 0, 2)
    while True:
        lc, lp, pb = rng.range(0, 8), rng.range(0, 4), rng.range(0, 4)
        if not lzma2 or lc + lp <= 4:
            return (lc, lp, pb)

def gen_lzma_streams(rng, count, big_every=0, end_styles=('marker', 'sized', 'sized+marker'), max_syms=60):
    """-> list of dicts: bytes (13-byte header file), out, props, dict, style, prog"""
    reqs, metas = [], []
    for k in range(count):
        lc, lp, pb = rand_props(rng)
        big = big_every and (k % big_every == big_every - 1)
        dict_field = rng.choice([0, 1, 4095, 4096, 4097, 5000, 8192]) if big else rng.choice(DICT_FIELDS)
        window = max(dict_field, 4096)
        if big:
            pbld = random_program(rng, 4000, window, lit_bias=1, until=window * rng.range(1, 3) + rng.range(1, 600))
        else:
            pbld = random_program(rng, rng.range(0, max_syms), window, lit_bias=rng.choice([1, 3, 8]))
        style = rng.choice(list(end_styles))
        end = style in ('marker', 'sized+marker')
        size = 'none' if style == 'marker' else str(pbld.n)
        delta = 0
        reqs.append('ref_lzma lc=%d lp=%d pb=%d dict=%d size=%s delta=%d prog=%s' % (lc, lp, pb, dict_field, size, delta, pbld.text(end)))
        metas.append({'props': (lc, lp, pb), 'dict': dict_field, 'style': style, 'n': pbld.n, 'kinds': dict(pbld.kinds), 'big': bool(big), 'nsyms': len(pbld.syms)})
    res = []
    for enc, meta, rq in zip(ref_encode(reqs), metas, reqs):
        if enc is None:
            raise InfraError('reference encoder rejected a generated program: ' + rq[:200])
        meta = dict(meta); meta['bytes'], meta['out'] = enc; meta['ref'] = rq if len(rq) < 600 else rq[:600] + '...'
        res.append(meta)
    return res

def lzma_oracle_exact(c):
    """C01-style oracle: the implementation must succeed and deliver exactly the format-defined bytes"""
    exp = c['meta_full']['out']
    r = c['r']
    if r.get('verdict') != 'ok':
        return 'well-formed stream rejected (%s) by the implementation' % r.get('verdict')
    if unhx(r.get('out', '-')) != exp:
        return 'implementation output differs from the bytes the format defines'
    return None

def light(meta):
    return {k: v for k, v in meta.items() if k not in ('bytes', 'out')}

# ------------------------------------------------------------------ C01
@prop('C01', 'symbol programs (all symbol kinds, lc/lp/pb, dictionary fields incl. <4096 and outputs larger than the window) encoded by the Coq reference encoder, decoded through lzma_decompress_with_options and the raw LzmaDecoder (dictionaries 1-8); non-trivial = program contains at least one match/rep or wraps the window; distinct by hash of the case line')
def run_C01(ck):
    rng = Rng(ck.seed).fork('C01')
    n = 400 if ck.tier == 'quick' else 4000
    streams = gen_lzma_streams(rng, n, big_every=12 if ck.tier == 'quick' else 8)
    cases = []
    for s in streams:
        b = s['bytes']
        opt, data = 'rfh', b
        r = rng.below(6)
        if r == 0 and s['style'] != 'marker':
            opt = 'rhp:%d' % s['n']; data = b[:5] + rng.bytes(8) + b[13:]
        elif r == 1:
            opt = 'up:%s' % ('none' if s['style'] == 'marker' else s['n']); data = b[:5] + b[13:]
        elif r == 2 and s['style'] == 'marker':
            opt = 'rhp:none'; data = b[:5] + rng.bytes(8) + b[13:]
        trail = b''
        if s['style'] == 'sized' and rng.chance(1, 3):
            trail = rng.bytes(rng.range(1, 30))
        rd = rng.choice(['all', 'all', '1', '3,1,7', 'std:slice', 'std:buf:%d' % rng.range(1, 40)])
        line = 'lzma_dec opt=%s in=%s rd=%s' % (opt, hx(data + trail), rd)
        cases.append({'line': line, 'meta': light(s), 'meta_full': s})
        ck.count('style_' + s['style']); ck.count('opt_' + opt.split(':')[0])
        for k, v in s['kinds'].items(): ck.count('sym_' + k, v)
        if s['big']: ck.count('output_exceeds_window')
    # raw API with tiny dictionaries: wraps happen every few bytes
    reqs, metas = [], []
    for k in range(n // 2):
        lc, lp, pb = rand_props(rng)
        d = rng.choice([1, 2, 3, 4, 5, 7, 8, 16, 4096])
        pbld = random_program(rng, rng.range(1, 80), d, lit_bias=rng.choice([1, 3]))
        sized = rng.chance(1, 2)
        reqs.append('ref_payload lc=%d lp=%d pb=%d window=%d delta=0 prog=%s' % (lc, lp, pb, d, pbld.text(not sized)))
        metas.append({'props': (lc, lp, pb), 'dict': d, 'n': pbld.n, 'sized': sized, 'kinds': dict(pbld.kinds)})
    for enc, meta, rq in zip(ref_encode(reqs), metas, reqs):
        if enc is None: raise InfraError('reference encoder rejected: ' + rq[:200])
        lc, lp, pb = meta['props']
        line = 'raw_lzma lc=%d lp=%d pb=%d dict=%d size=%s ops=d:%s' % (lc, lp, pb, meta['dict'], meta['n'] if meta['sized'] else 'none', hx(enc[0]))
        meta['ref'] = rq[:400]
        cases.append({'line': line, 'meta': meta, 'raw_expect': enc[1]})
        ck.count('raw_dict_%d' % meta['dict'])
    run_both(ck, cases)
    for c in cases:
        nontrivial = any(c['meta']['kinds'].get(k, 0) for k in 'MSR')
        ck.note_case(c['line'], nontrivial)
        if 'raw_expect' in c:
            def oracle(c):
                parts = c['r'].get('res', '').split(';')
                if len(parts) < 2 or not parts[1].startswith('d:ok:'):
                    return 'raw LzmaDecoder rejected a well-formed payload: ' + c['r'].get('res', '')[:80]
                if unhx(parts[1].split(':')[2]) != c['raw_expect']:
                    return 'raw LzmaDecoder output differs from the bytes the format defines'
                return None
            judge(ck, c, ['res'], oracle, 'model_ok')
        else:
            judge(ck, c, ['verdict', 'out', 'pos', 'fl'], lzma_oracle_exact, 'model_ok')
