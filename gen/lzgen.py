"""Generators, runners and comparison helpers for the lzma-rs correspondence checks.

Every random choice derives from one SplitMix64 state seeded with VERIF_SEED, so a
disagreement replays exactly.  Valid streams come from symbol programs encoded by the
extracted Coq reference encoder (modelrun ref_*), never from lzma-rs itself.
"""
import os, subprocess, sys, json, time, hashlib, zlib, struct, tempfile, shutil

ROOT = os.path.dirname(os.path.dirname(os.path.abspath(__file__)))
BUILD = os.path.join(ROOT, 'build')
MODELRUN = os.path.join(BUILD, 'ocaml', 'modelrun')
_TGT = os.environ.get('LZ_ALT_TARGET') or os.path.join(BUILD, 'harness-target')
LZRS_DEV = os.path.join(_TGT, 'debug', 'lzrs')
LZRS_REL = os.path.join(_TGT, 'release', 'lzrs')
NCPU = 16
ALL_ONES = 0xFFFFFFFFFFFFFFFF


class Rng:
    def __init__(self, seed):
        self.s = (seed * 0x9E3779B97F4A7C15 + 0x1234567) & ALL_ONES
    def next(self):
        self.s = (self.s + 0x9E3779B97F4A7C15) & ALL_ONES
        z = self.s
        z = ((z ^ (z >> 30)) * 0xBF58476D1CE4E5B9) & ALL_ONES
        z = ((z ^ (z >> 27)) * 0x94D049BB133111EB) & ALL_ONES
        return z ^ (z >> 31)
    def below(self, n):
        return self.next() % n if n > 0 else 0
    def range(self, lo, hi):           # inclusive
        return lo + self.below(hi - lo + 1)
    def choice(self, xs):
        return xs[self.below(len(xs))]
    def chance(self, num, den):
        return self.below(den) < num
    def bytes(self, n):
        return bytes(self.below(256) for _ in range(n))
    def shuffle(self, xs):             # Fisher-Yates, in place
        for i in range(len(xs) - 1, 0, -1):
            j = self.below(i + 1)
            xs[i], xs[j] = xs[j], xs[i]
    def fork(self, tag):
        h = hashlib.sha256(('%d/%s' % (self.s, tag)).encode()).digest()
        return Rng(int.from_bytes(h[:8], 'little'))


def hx(b):
    return b.hex() if len(b) else '-'
def unhx(s):
    return b'' if s == '-' else bytes.fromhex(s)


# ---------------------------------------------------------------- symbol programs
LEN_EDGES = [2, 3, 9, 10, 17, 18, 19, 100, 272, 273]

def pick_len(rng):
    return rng.choice(LEN_EDGES) if rng.chance(1, 2) else rng.range(2, 273)

def pick_dist(rng, maxd):
    """a distance in 1..maxd, biased to slot boundaries, 1, and maxd"""
    if maxd <= 1:
        return 1
    r = rng.below(10)
    if r == 0:
        return maxd
    if r == 1:
        return 1
    if r == 2:
        return max(1, maxd - rng.below(min(maxd, 4)))
    if r <= 5:
        k = rng.below(maxd.bit_length())
        base = rng.choice([1 << k, (1 << k) + 1, (1 << k) - 1 if k else 1, 3 << max(0, k - 1), (3 << max(0, k - 1)) + 1])
        return min(maxd, max(1, base))
    if r <= 7:
        return rng.range(1, min(maxd, 16))
    return rng.range(1, maxd)

class ProgBuilder:
    """builds a well-formed symbol program, tracking what sem tracks"""
    def __init__(self, window=None):
        self.syms = []
        self.n = 0              # bytes produced since the last dictionary reset
        self.reps = [1, 1, 1, 1]  # distances
        self.window = window
        self.kinds = {'L': 0, 'M': 0, 'S': 0, 'R': 0}
    def maxd(self):
        return self.n if self.window is None else min(self.n, self.window)
    def lit(self, b):
        self.syms.append('L%d' % b); self.n += 1; self.kinds['L'] += 1
    def match(self, d, l):
        self.syms.append('M%d,%d' % (d, l)); self.n += l; self.reps = [d] + self.reps[:3]; self.kinds['M'] += 1
    def shortrep(self):
        self.syms.append('S'); self.n += 1; self.kinds['S'] += 1
    def rep(self, i, l):
        d = self.reps[i]
        self.syms.append('R%d,%d' % (i, l)); self.n += l
        self.reps = [d] + self.reps[:i] + self.reps[i + 1:]; self.kinds['R'] += 1
    def random_sym(self, rng, lit_bias=3):
        md = self.maxd()
        r = rng.below(lit_bias + 7)
        if md == 0 or r < lit_bias:
            self.lit(rng.below(256) if rng.chance(2, 3) else rng.choice([0, 255, 0x80, 0x7f, 65]))
        elif r < lit_bias + 3:
            self.match(pick_dist(rng, min(md, 0xFFFFFFFF)), pick_len(rng))
        elif r < lit_bias + 4 and self.reps[0] <= md:
            self.shortrep()
        else:
            cands = [i for i in range(4) if self.reps[i] <= md]
            if cands:
                self.rep(rng.choice(cands), pick_len(rng))
            else:
                self.lit(rng.below(256))
    def text(self, end=False):
        return '.'.join(self.syms + (['E'] if end else [])) or '-'


def random_program(rng, nsyms, window=None, lit_bias=3, until=None):
    pb = ProgBuilder(window)
    for _ in range(nsyms):
        pb.random_sym(rng, lit_bias)
        if until is not None and pb.n >= until:
            break
    return pb


# ---------------------------------------------------------------- running
def _run_tool(tool, lines, timeout=1800, env=None):
    """run `tool` on the given case lines, sharded over NCPU processes; returns output lines"""
    if not lines:
        return []
    save = os.environ.get('LZ_SAVE_CASES')
    if save and 'lzrs' in tool:
        with open(save, 'a') as f:
            for l in lines:
                f.write(l + '\n')
    n = len(lines)
    # shard by cumulative size so that big cases spread out
    shards = [[] for _ in range(min(NCPU, n))]
    for i, l in enumerate(lines):
        shards[i % len(shards)].append((i, l))
    tmpd = tempfile.mkdtemp(prefix='lzv_', dir=os.path.join(BUILD, 'tmp'))
    procs = []
    try:
        for k, sh in enumerate(shards):
            p = os.path.join(tmpd, 'shard%d.cases' % k)
            with open(p, 'w') as f:
                for _, l in sh:
                    f.write(l + '\n')
            cmd = 'ulimit -s unlimited 2>/dev/null; exec "%s" "%s"' % (tool, p)
            procs.append(subprocess.Popen(['bash', '-c', cmd], stdout=subprocess.PIPE, stderr=subprocess.DEVNULL, env=env))
        out = [None] * n
        for sh, pr in zip(shards, procs):
            o, _ = pr.communicate(timeout=timeout)
            ls = o.decode().split('\n')
            if ls and ls[-1] == '':
                ls.pop()
            if len(ls) != len(sh) and 'lzrs' in os.path.basename(tool) and pr.returncode not in (0, None) and len(ls) < len(sh):
                # the implementation killed the whole process (abort on allocation failure, stack overflow, ...) on the case
                # after the last printed result: record that and carry on with the remaining cases in a fresh process
                rest = sh
                ls_all = []
                rc = pr.returncode
                for attempt in range(50):
                    # ls may end with a partial line when the process died while printing
                    k = len(ls)
                    ls_all += ls + ['abort why=process-killed-rc%s' % rc]
                    rest = rest[k + 1:]
                    if not rest:
                        break
                    p2 = os.path.join(tmpd, 'retry.cases')
                    with open(p2, 'w') as f:
                        for _, l in rest:
                            f.write(l + '\n')
                    pr2 = subprocess.Popen(['bash', '-c', 'ulimit -s unlimited 2>/dev/null; exec "%s" "%s"' % (tool, p2)], stdout=subprocess.PIPE, stderr=subprocess.DEVNULL, env=env)
                    o2, _ = pr2.communicate(timeout=timeout)
                    ls = o2.decode().split('\n')
                    if ls and ls[-1] == '':
                        ls.pop()
                    rc = pr2.returncode
                    if len(ls) == len(rest):
                        ls_all += ls; rest = []
                        break
                ls = ls_all
            if len(ls) != len(sh):
                raise InfraError('%s produced %d lines for %d cases (exit %s)' % (os.path.basename(tool), len(ls), len(sh), pr.returncode))
            for (i, _), l in zip(sh, ls):
                out[i] = l
        return out
    finally:
        for pr in procs:
            if pr.poll() is None:
                pr.kill()
        shutil.rmtree(tmpd, ignore_errors=True)


class InfraError(Exception):
    pass


def run_model(lines):
    return _run_tool(MODELRUN, lines)

def run_impl(lines, release=False):
    return _run_tool(LZRS_REL if release else LZRS_DEV, lines)

def parse(line):
    """result line -> dict; the first bare token is the verdict"""
    d = {}
    for i, t in enumerate(line.split(' ')):
        if '=' in t:
            k, v = t.split('=', 1)
            d[k] = v
        elif i == 0:
            d['verdict'] = t
    return d


def ref_encode(lines):
    """run ref_* lines through the model; returns list of (bytes, out) or None when ill-formed"""
    res = []
    for l in run_model(lines):
        if l.startswith('ok '):
            d = parse(l)
            res.append((unhx(d['bytes']), unhx(d['out'])))
        else:
            res.append(None)
    return res


# ---------------------------------------------------------------- xz container (python serialiser)
def crc32(b):
    return zlib.crc32(b) & 0xFFFFFFFF

_CRC64_TAB = None
def crc64(b):
    global _CRC64_TAB
    if _CRC64_TAB is None:
        t = []
        for i in range(256):
            c = i
            for _ in range(8):
                c = (c >> 1) ^ 0xC96C5795D7870F42 if c & 1 else c >> 1
            t.append(c)
        _CRC64_TAB = t
    c = ALL_ONES
    for x in b:
        c = _CRC64_TAB[(c ^ x) & 0xFF] ^ (c >> 8)
    return c ^ ALL_ONES

def multibyte(v, width=None):
    """xz variable-length integer; width forces a (possibly non-minimal) encoding of that many bytes"""
    out = []
    while True:
        byte = v & 0x7F
        v >>= 7
        if v == 0 and (width is None or len(out) + 1 >= width):
            out.append(byte)
            break
        out.append(0x80 | byte)
    return bytes(out)

XZ_MAGIC = bytes([0xFD, 0x37, 0x7A, 0x58, 0x5A, 0x00])

class XzBlock:
    def __init__(self, payload, content, with_packed=False, with_unpacked=False, header_pad=0,
                 filter_id=0x21, props=b'\x16', flags_extra=0, mb_width=None,
                 packed_override=None, unpacked_override=None, nfilters=1, filters=None):
        self.payload, self.content = payload, content
        self.with_packed, self.with_unpacked, self.header_pad = with_packed, with_unpacked, header_pad
        self.filter_id, self.props, self.flags_extra, self.mb_width = filter_id, props, flags_extra, mb_width
        self.packed_override, self.unpacked_override, self.nfilters = packed_override, unpacked_override, nfilters
        self.filters = filters            # explicit chain [(filter id, property bytes), ...]; overrides filter_id/props/nfilters
        if filters: self.nfilters = len(filters)

def xz_block_bytes(b, check, tweak=None):
    """returns (bytes, unpadded_size, unpacked_size); tweak is a dict of field overrides (for mutants)"""
    tweak = tweak or {}
    flags = (b.nfilters - 1) | b.flags_extra | (0x40 if b.with_packed else 0) | (0x80 if b.with_unpacked else 0)
    body = bytes([flags])
    if b.with_packed:
        body += multibyte(b.packed_override if b.packed_override is not None else len(b.payload), b.mb_width)
    if b.with_unpacked:
        body += multibyte(b.unpacked_override if b.unpacked_override is not None else len(b.content), b.mb_width)
    for fid_, fprops_ in (b.filters or [(b.filter_id, b.props)] * b.nfilters):
        body += multibyte(fid_, b.mb_width) + multibyte(len(fprops_), b.mb_width) + fprops_
    total = 1 + len(body) + 4
    total = (total + 3) // 4 * 4 + 4 * b.header_pad
    if total > 1024:
        raise ValueError('block header too large')
    hdr_size_byte = total // 4 - 1
    padding = bytes(total - 1 - len(body) - 4)
    if 'header_padding' in tweak and len(padding):
        padding = tweak['header_padding'](padding)
    if 'size_byte' in tweak:
        hdr_size_byte = tweak['size_byte']
    hdr = bytes([hdr_size_byte]) + body + padding
    hcrc = tweak.get('header_crc', crc32(hdr))
    out = hdr + struct.pack('<I', hcrc) + b.payload
    pad = bytes((-len(out)) % 4)
    if 'block_padding' in tweak:
        pad = tweak['block_padding'](pad)
    if check == 0:
        ck = b''
    elif check == 1:
        ck = struct.pack('<I', tweak.get('check', crc32(b.content)))
    elif check == 4:
        ck = struct.pack('<Q', tweak.get('check', crc64(b.content)))
    elif check == 10:
        ck = tweak.get('check', hashlib.sha256(b.content).digest())
    else:
        ck = bytes({2: 4, 3: 4, 5: 8, 6: 8, 7: 16, 8: 16, 9: 16, 11: 32, 12: 32, 13: 64, 14: 64, 15: 64}.get(check, 0))
    unpadded = len(out) + len(ck)
    return out + pad + ck, unpadded, len(b.content)

def xz_file(blocks, check=1, tweak=None, block_tweaks=None, mb_width=None):
    """serialise an .xz file; `tweak` overrides container fields (for mutants), CRCs are recomputed unless overridden"""
    tweak = tweak or {}
    block_tweaks = block_tweaks or {}
    flags = bytes([tweak.get('flag0', 0), tweak.get('check_byte', check)])
    out = tweak.get('magic', XZ_MAGIC) + flags + struct.pack('<I', tweak.get('header_crc', crc32(flags)))
    records = []
    for i, b in enumerate(blocks):
        bb, unpadded, unpacked = xz_block_bytes(b, check, block_tweaks.get(i))
        out += bb
        records.append((unpadded, unpacked))
    if 'records' in tweak:
        records = tweak['records'](records)
    idx = b'\x00' + multibyte(tweak.get('nrecords', len(records)), mb_width)
    for u, v in records:
        idx += multibyte(u, mb_width) + multibyte(v, mb_width)
    ipad = bytes((-len(idx)) % 4)
    if 'index_padding' in tweak:
        ipad = tweak['index_padding'](ipad)
    idx += ipad
    idx += struct.pack('<I', tweak.get('index_crc', crc32(idx)))
    out += idx
    backward = tweak.get('backward_size', len(idx) // 4 - 1) & 0xFFFFFFFF
    fflags = bytes([tweak.get('fflag0', tweak.get('flag0', 0)), tweak.get('fcheck_byte', tweak.get('check_byte', check))])
    fbody = struct.pack('<I', backward) + fflags
    out += struct.pack('<I', tweak.get('footer_crc', crc32(fbody))) + fbody + tweak.get('footer_magic', b'YZ')
    return out + tweak.get('trailer', b'')


# ---------------------------------------------------------------- evidence / verdict plumbing
class Check:
    """collects cases, comparisons and statistics for one property run"""
    def __init__(self, pid, tier, seed):
        self.pid, self.tier, self.seed = pid, tier, seed
        self.t0 = time.time()
        self.evaluations = 0
        self.distinct = set()
        self.samples = []
        self.stats = {}
        self.violations = []      # (kind, description, replay dict)
        self.drift = []
        self.known = []
    def count(self, key, n=1):
        self.stats[key] = self.stats.get(key, 0) + n
    def note_case(self, line, nontrivial=True):
        self.evaluations += 1
        if nontrivial:
            self.distinct.add(hashlib.sha1(line.encode()).digest()[:8])
        if len(self.samples) < 6 and len(line) < 400:
            self.samples.append(line)
    def violation(self, kind, desc, replay):
        self.violations.append((kind, desc, replay))


def chunkings(rng, n, how):
    """cut positions for an input of n bytes -> list of piece lengths"""
    if how == 'whole':
        return [n]
    if how == 'bytes':
        return [1] * n
    if how == 'single':
        c = rng.range(0, n)
        return [c, n - c]
    if how == 'early':
        cuts = sorted(set(rng.range(0, min(n, 40)) for _ in range(rng.range(1, 6))))
        cuts = [c for c in cuts if c <= n]
        res, prev = [], 0
        for c in cuts:
            res.append(c - prev); prev = c
        res.append(n - prev)
        return res
    # random composition, with empty pieces now and then
    res, left = [], n
    while left > 0:
        k = rng.choice([0, 1, 1, 2, 3, 5, 13, 18, 19, 20, 21, 64]) if rng.chance(2, 3) else rng.range(1, left)
        k = min(k, left)
        res.append(k); left -= k
    return res or [0]

def pieces(data, lens):
    out, p = [], 0
    for l in lens:
        out.append(data[p:p + l]); p += l
    return out


# ---------------------------------------------------------------- extraction cross-check (thorough tier)
def coq_list(b):
    return '[' + '; '.join(str(x) for x in b) + ']'

def extraction_crosscheck(ck, lines, limit=24):
    """Evaluate a sample of decode cases inside Coq (vm_compute on the Gallina model) and compare with what the
    extracted OCaml runner printed for the same case lines.  Returns (n_checked, ok)."""
    import re
    picked = []
    for l in lines:
        op = l.split(' ')[0]
        if op in ('lzma_dec', 'lzma2_dec', 'xz_dec') and len(l) < 500 and 'std:' not in l:
            picked.append(l)
        if len(picked) >= limit: break
    if not picked: return (0, True)
    outs = run_model(picked)
    defs = []
    for i, (l, o) in enumerate(zip(picked, outs)):
        kv = dict(t.split('=', 1) for t in l.split(' ')[1:] if '=' in t)
        r = parse(o)
        def nl(s): return '[]' if s in ('all', '') else '[' + '; '.join(s.split(',')) + ']'
        def on(s): return 'None' if s == 'none' else '(Some %s)' % s
        env = '(mkEnv %s %s %s %s %s)' % (nl(kv.get('rd', 'all')), on(kv.get('rfail', 'none')), nl(kv.get('wr', 'all')), on(kv.get('wfail', 'none')), 'true' if kv.get('ffail', '0') == '1' else 'false')
        data = coq_list(unhx(kv.get('in', '-')))
        op = l.split(' ')[0]
        if op == 'lzma_dec':
            o_ = kv.get('opt', 'rfh').split(':')
            us = 'ReadFromHeader' if o_[0] == 'rfh' else '(%s %s)' % ('ReadHeaderButUseProvided' if o_[0] == 'rhp' else 'UseProvided', on(o_[1]))
            call = '(api_lzma_dec (mkOptions %s %s false) %s %s)' % (us, on(kv.get('mem', 'none')), env, data)
        elif op == 'lzma2_dec':
            call = '(api_lzma2_dec %s %s)' % (env, data)
        else:
            call = '(api_xz_dec %s %s)' % (env, data)
        v = {'ok': 0, 'err': 1, 'panic': 2}[r['verdict']]
        defs.append('Definition c%d := result_agrees %s %d %s %s.' % (i, call, v, coq_list(unhx(r.get('out', '-'))), r.get('pos', '0')))
    src = 'From LZ Require Import Base.Prelude Model.Lzma Extract.Api.\n' + '\n'.join(defs) + \
          '\nEval vm_compute in (forallb (fun b : bool => b) [%s]).\n' % '; '.join('c%d' % i for i in range(len(defs)))
    tmpd = tempfile.mkdtemp(prefix='lzx_', dir=os.path.join(BUILD, 'tmp'))
    try:
        f = os.path.join(tmpd, 'cases.v')
        open(f, 'w').write(src)
        p = subprocess.run('ulimit -s unlimited; timeout 900 coqc -q -Q %s LZ -Q %s X %s' % (os.path.join(ROOT, 'coq'), tmpd, f), shell=True, stdout=subprocess.PIPE, stderr=subprocess.STDOUT)
        out = p.stdout.decode()
        ok = p.returncode == 0 and re.search(r'=\s*true', out) is not None
        ck.stats['extraction_crosscheck_cases'] = len(defs)
        ck.stats['extraction_crosscheck_ok'] = bool(ok)
        if not ok:
            ck.violation('correspondence', 'extracted OCaml runner and vm_compute evaluation of the Coq model disagree (or coqc failed): ' + out[-300:], {'case': picked})
        return (len(defs), ok)
    finally:
        shutil.rmtree(tmpd, ignore_errors=True)
