(* modelrun: reads a case file (one case per line), runs the extracted Coq model,
   prints one canonical result line per case.  See gen/PROTOCOL.md. *)
open Model

(* ---- conversions between OCaml ints and the extracted binary numbers ---- *)
let rec pos_of_int (i : int) : positive =
  if i = 1 then XH else if i land 1 = 0 then XO (pos_of_int (i lsr 1)) else XI (pos_of_int (i lsr 1))
let n_of_int (i : int) : n = if i = 0 then N0 else Npos (pos_of_int i)
let rec int_of_pos (p : positive) : int =
  match p with XH -> 1 | XO q -> 2 * int_of_pos q | XI q -> 2 * int_of_pos q + 1
let int_of_n (x : n) : int = match x with N0 -> 0 | Npos p -> int_of_pos p

(* decimal strings up to 2^64-1 (OCaml ints are 63 bit): build through Z-free arithmetic *)
let n_of_decimal (s : string) : n =
  let acc = ref N0 in
  String.iter (fun c ->
    let d = Char.code c - 48 in
    if d < 0 || d > 9 then failwith ("bad number " ^ s);
    acc := N.add (N.mul !acc (n_of_int 10)) (n_of_int d)) s;
  !acc
let rec decimal_of_n (x : n) : string =
  (* divide by 10^9 chunks *)
  let base = n_of_int 1000000000 in
  let q = N.div x base and r = N.modulo x base in
  if q = N0 then string_of_int (int_of_n r)
  else decimal_of_n q ^ Printf.sprintf "%09d" (int_of_n r)

let byte_tab : n array = Array.init 256 n_of_int
let hexval c = match c with
  | '0'..'9' -> Char.code c - 48 | 'a'..'f' -> Char.code c - 87 | 'A'..'F' -> Char.code c - 55
  | _ -> failwith "bad hex"
let bytes_of_hex (s : string) : n list =
  let s = if s = "-" then "" else s in
  let l = String.length s / 2 in
  let rec go i acc = if i < 0 then acc else go (i - 1) (byte_tab.(hexval s.[2*i] * 16 + hexval s.[2*i+1]) :: acc) in
  go (l - 1) []
let hex_of_bytes (l : n list) : string =
  if l = [] then "-" else begin
    let b = Buffer.create 1024 in
    List.iter (fun x -> Buffer.add_string b (Printf.sprintf "%02x" (int_of_n x))) l;
    Buffer.contents b
  end

(* ---- key=value parsing ---- *)
let parse_kv (toks : string list) : (string * string) list =
  List.filter_map (fun t ->
    match String.index_opt t '=' with
    | Some i -> Some (String.sub t 0 i, String.sub t (i+1) (String.length t - i - 1))
    | None -> None) toks
let get kv k d = try List.assoc k kv with Not_found -> d
let opt_n s = if s = "none" then None else Some (n_of_decimal s)
let nlist s = if s = "all" || s = "" then [] else List.map n_of_decimal (String.split_on_char ',' s)

let env_of kv : env =
  let rd = get kv "rd" "all" in
  let frag =
    if String.length rd >= 4 && String.sub rd 0 4 = "std:" then begin
      match String.split_on_char ':' rd with
      | ["std"; "buf"; c] -> [n_of_decimal c]
      | _ -> []
    end else nlist rd in
  { ev_frag = frag; ev_rfail = opt_n (get kv "rfail" "none");
    ev_accept = nlist (get kv "wr" "all"); ev_wfail = opt_n (get kv "wfail" "none");
    ev_ffail = (get kv "ffail" "0" = "1") }

let unpacked_of s : unpacked_size_opt =
  match String.split_on_char ':' s with
  | ["rfh"] -> ReadFromHeader
  | ["rhp"; x] -> ReadHeaderButUseProvided (opt_n x)
  | ["up"; x] -> UseProvided (opt_n x)
  | _ -> failwith ("bad opt " ^ s)
let options_of kv : options =
  { o_unpacked = unpacked_of (get kv "opt" "rfh"); o_memlimit = opt_n (get kv "mem" "none");
    o_allow_incomplete = (get kv "allow" "0" = "1") }
let enc_opt_of s : enc_unpacked =
  match String.split_on_char ':' s with
  | ["wh"; x] -> WriteToHeader (opt_n x)
  | ["skip"] -> SkipWritingToHeader
  | _ -> failwith ("bad enc opt " ^ s)

let verdict (o : 'a outcome) = match o with Done _ -> "ok" | Failed _ -> "err" | Panicked _ -> "panic"
let detail (o : 'a outcome) = match o with
  | Done _ -> "-"
  | Failed EIo -> "io" | Failed EHeaderTooShort -> "hts" | Failed ELzma -> "lzma" | Failed EXz -> "xz"
  | Panicked (POverflow k) -> "overflow" ^ string_of_int (int_of_n k)
  | Panicked (PIndex k) -> "index" ^ string_of_int (int_of_n k)
  | Panicked (PDivZero k) -> "divzero" ^ string_of_int (int_of_n k)
  | Panicked (PAssert k) -> "assert" ^ string_of_int (int_of_n k)
  | Panicked (PFuel k) -> "fuel" ^ string_of_int (int_of_n k)

let print_result (r : result) =
  Printf.printf "%s out=%s pos=%d fl=%d why=%s rc=%d wc=%d\n" (verdict r.r_verdict) (hex_of_bytes r.r_out)
    (int_of_n r.r_pos) (int_of_n r.r_flushes) (detail r.r_verdict) (int_of_n r.r_refills) (int_of_n r.r_wcalls)

(* ---- symbol programs:  L97.M3,5.S.R0,4.E ---- *)
let sym_of (t : string) : sym =
  let rest = String.sub t 1 (String.length t - 1) in
  let two () = match String.split_on_char ',' rest with
    | [a; b] -> (n_of_decimal a, n_of_decimal b) | _ -> failwith ("bad sym " ^ t) in
  match t.[0] with
  | 'L' -> Lit (n_of_decimal rest)
  | 'M' -> let (d, l) = two () in Match (d, l)
  | 'S' -> ShortRep
  | 'R' -> let (i, l) = two () in Rep (i, l)
  | 'E' -> EndMarker
  | _ -> failwith ("bad sym " ^ t)
let prog_of (s : string) : sym list =
  if s = "-" || s = "" then [] else List.map sym_of (String.split_on_char '.' s)
let fprops_of kv = { f_lc = n_of_decimal (get kv "lc" "3"); f_lp = n_of_decimal (get kv "lp" "0"); f_pb = n_of_decimal (get kv "pb" "2") }

(* chunks:  U1:<hex> / Z<cls>:<lc,lp,pb|->:<delta>:<prog> *)
let chunk_of (t : string) : chunk =
  match String.split_on_char ':' t with
  | [u; h] when u.[0] = 'U' -> CRaw (u = "U1", bytes_of_hex h)
  | [z; p; d; pr] when z.[0] = 'Z' ->
      let cls = n_of_int (Char.code z.[1] - 48) in
      let np = if p = "-" then None else
        (match String.split_on_char ',' p with
         | [a; b; c] -> Some { f_lc = n_of_decimal a; f_lp = n_of_decimal b; f_pb = n_of_decimal c }
         | _ -> failwith "bad props") in
      CLzma (cls, np, prog_of pr, n_of_decimal d)
  | _ -> failwith ("bad chunk " ^ t)

let split_nonempty c s = List.filter (fun x -> x <> "") (String.split_on_char c s)

let run_case (line : string) =
  match split_nonempty ' ' line with
  | [] -> ()
  | op :: toks ->
    let kv = parse_kv toks in
    let data () = bytes_of_hex (get kv "in" "-") in
    match op with
    | "lzma_dec" -> print_result (api_lzma_dec (options_of kv) (env_of kv) (data ()))
    | "lzma2_dec" -> print_result (api_lzma2_dec (env_of kv) (data ()))
    | "xz_dec" -> print_result (api_xz_dec (env_of kv) (data ()))
    | "lzma_enc" -> print_result (api_lzma_enc (enc_opt_of (get kv "opt" "wh:none")) (env_of kv) (data ()))
    | "lzma2_enc" -> print_result (api_lzma2_enc (env_of kv) (data ()))
    | "xz_enc" -> print_result (api_xz_enc (env_of kv) (data ()))
    | "raw_lzma" ->
        let e = env_of kv in
        let b = Buffer.create 256 in
        let dec0 = api_raw_lzma_new (n_of_decimal (get kv "lc" "3")) (n_of_decimal (get kv "lp" "0"))
            (n_of_decimal (get kv "pb" "2")) (n_of_decimal (get kv "dict" "4096"))
            (opt_n (get kv "size" "none")) (opt_n (get kv "mem" "none")) in
        (match dec0 with
         | Done d0 ->
             Buffer.add_string b "new:ok";
             let dec = ref d0 in
             let stop = ref false in
             List.iter (fun o ->
               if not !stop then begin
                 match String.split_on_char ':' o with
                 | ["d"; h] ->
                     let (r, d') = api_raw_lzma_dec !dec e (bytes_of_hex h) in
                     dec := d';
                     Buffer.add_string b (Printf.sprintf ";d:%s:%s:%d" (verdict r.r_verdict) (hex_of_bytes r.r_out) (int_of_n r.r_pos));
                     (match r.r_verdict with Panicked _ -> stop := true | _ -> ())
                 | ["r"] | ["rn"] | ["rs"; _] ->
                     let us = (match String.split_on_char ':' o with
                       | ["r"] -> None | ["rn"] -> Some None | ["rs"; x] -> Some (Some (n_of_decimal x)) | _ -> None) in
                     (match lzma_decoder_reset !dec us with
                      | Done d' -> dec := d'; Buffer.add_string b ";r"
                      | _ -> Buffer.add_string b ";r:panic"; stop := true)
                 | _ -> failwith ("bad raw op " ^ o)
               end) (split_nonempty ';' (get kv "ops" ""))
         | o -> Buffer.add_string b ("new:" ^ verdict o));
        Printf.printf "res=%s\n" (Buffer.contents b)
    | "raw_lzma2" ->
        let e = env_of kv in
        let b = Buffer.create 256 in
        (match lzma2_new with
         | Done d0 ->
             Buffer.add_string b "new:ok";
             let dec = ref d0 in
             let stop = ref false in
             List.iter (fun o ->
               if not !stop then begin
                 match String.split_on_char ':' o with
                 | ["d"; h] ->
                     let (r, d') = api_raw_lzma2_dec !dec e (bytes_of_hex h) in
                     dec := d';
                     Buffer.add_string b (Printf.sprintf ";d:%s:%s:%d" (verdict r.r_verdict) (hex_of_bytes r.r_out) (int_of_n r.r_pos));
                     (match r.r_verdict with Panicked _ -> stop := true | _ -> ())
                 | ["r"] ->
                     (match lzma2_reset !dec with
                      | Done d' -> dec := d'; Buffer.add_string b ";r"
                      | _ -> Buffer.add_string b ";r:panic"; stop := true)
                 | _ -> failwith ("bad raw op " ^ o)
               end) (split_nonempty ';' (get kv "ops" ""))
         | o -> Buffer.add_string b ("new:" ^ verdict o));
        Printf.printf "res=%s\n" (Buffer.contents b)
    | "stream" ->
        let st = ref (api_stream_new (options_of kv) (env_of kv)) in
        let b = Buffer.create 256 in
        let first = ref true in
        let add s = (if not !first then Buffer.add_char b ';'); first := false; Buffer.add_string b s in
        let finished = ref false in
        let final_out = ref None in
        let final_fl = ref None in
        List.iter (fun c ->
          if not !finished then begin
            match String.split_on_char ':' c with
            | ["w"; h] ->
                let (r, s') = stream_write !st (bytes_of_hex h) in
                st := s';
                (match r with Done k -> add (Printf.sprintf "w:%d" (int_of_n k)) | Failed _ -> add "w:err"
                            | Panicked _ -> add "w:panic"; finished := true)
            | ["W"; h] ->
                (* feed the piece by repeated write until consumed; stop at Ok(0) on non-empty data or Err *)
                let rest = ref (bytes_of_hex h) in
                let go = ref true in
                let total = ref 0 in
                let status = ref "ok" in
                while !go && !rest <> [] do
                  let (r, s') = stream_write !st !rest in
                  st := s';
                  (match r with
                   | Done k ->
                       let k = int_of_n k in
                       if k = 0 then (go := false; status := "zero")
                       else begin
                         total := !total + k;
                         let rec drop i l = if i = 0 then l else match l with [] -> [] | _ :: t -> drop (i-1) t in
                         rest := drop k !rest
                       end
                   | Failed _ -> go := false; status := "err"
                   | Panicked _ -> go := false; status := "panic"; finished := true)
                done;
                add (Printf.sprintf "W:%s:%d" !status !total)
            | ["f"] ->
                let (r, s') = stream_flush !st in st := s'; add ("f:" ^ verdict r)
            | ["g"] -> add (Printf.sprintf "g:%d" (List.length (api_stream_out !st)))
            | ["o"] -> (match (!st).st_state with
                        | None -> add "o:none"
                        | Some _ -> add (Printf.sprintf "o:%d" (List.length (api_stream_out !st))))
            | ["x"] ->
                let (r, k) = stream_finish !st in
                finished := true;
                add ("x:" ^ verdict r);
                final_out := Some (List.rev k.k_out);
                final_fl := Some (int_of_n k.k_flushes)
            | _ -> failwith ("bad stream call " ^ c)
          end) (split_nonempty ';' (get kv "calls" ""));
        let out = match !final_out with Some o -> o | None -> api_stream_out !st in
        let fl = match !final_fl with Some f -> f | None -> int_of_n (stream_sink !st).k_flushes in
        Printf.printf "res=%s out=%s fl=%d\n" (Buffer.contents b) (hex_of_bytes out) fl
    | "ref_lzma" ->
        let size = (match get kv "size" "none" with "none" -> n_of_decimal "18446744073709551615" | s -> n_of_decimal s) in
        (match api_ref_lzma (get kv "lenient" "0" = "1") (fprops_of kv) (n_of_decimal (get kv "dict" "4096")) size (prog_of (get kv "prog" "-")) (n_of_decimal (get kv "delta" "0")) with
         | Some (bytes, out) -> Printf.printf "ok bytes=%s out=%s\n" (hex_of_bytes bytes) (hex_of_bytes out)
         | None -> print_endline "illformed")
    | "ref_payload" ->
        (match api_ref_payload (get kv "lenient" "0" = "1") (fprops_of kv) (opt_n (get kv "window" "none")) (prog_of (get kv "prog" "-")) (n_of_decimal (get kv "delta" "0")) with
         | Some (bytes, out) -> Printf.printf "ok bytes=%s out=%s\n" (hex_of_bytes bytes) (hex_of_bytes out)
         | None -> print_endline "illformed")
    | "ref_lzma2" ->
        (match api_ref_lzma2 (get kv "lenient" "0" = "1") (List.map chunk_of (split_nonempty '/' (get kv "chunks" ""))) with
         | Some (bytes, out) -> Printf.printf "ok bytes=%s out=%s\n" (hex_of_bytes bytes) (hex_of_bytes out)
         | None -> print_endline "illformed")
    | "crc32" -> Printf.printf "ok v=%s\n" (decimal_of_n (api_crc32 (data ())))
    | "crc64" -> Printf.printf "ok v=%s\n" (decimal_of_n (api_crc64 (data ())))
    | _ -> Printf.printf "unknown-op %s\n" op

let () =
  let ic = if Array.length Sys.argv > 1 then open_in Sys.argv.(1) else stdin in
  (try
     while true do
       let line = input_line ic in
       (try run_case line with
        | Stack_overflow -> print_endline "model-crash stack_overflow"
        | Failure m -> Printf.printf "model-crash %s\n" m);
     done
   with End_of_file -> ());
  flush stdout
