// Search for inputs whose literal-only LZMA encoding drives the range encoder into a long run of pending 0xFF bytes (cachesz >= target).
// Adapted from the search program a mutation-seeding sub-agent wrote for its demonstration (seeded7/F09); usage: ffrun <target run length>
// model of dumb encoder; search input producing long pending 0xFF run
#[derive(Clone)]
struct Enc { range: u32, low: u64, cache: u8, cachesz: u64, maxsz: u64, out: Vec<u8>,
  lit: Vec<[u16;0x300]>, ism: [u16;4], prev: u8, n: usize }
impl Enc {
  fn new()->Self{Enc{range:0xFFFF_FFFF,low:0,cache:0,cachesz:1,maxsz:1,out:vec![],lit:vec![[0x400;0x300];8],ism:[0x400;4],prev:0,n:0}}
  fn write_low(&mut self){
    if self.low < 0xFF00_0000 || self.low > 0xFFFF_FFFF {
      let mut tmp=self.cache;
      loop { self.out.push(tmp.wrapping_add((self.low>>32) as u8)); tmp=0xFF; self.cachesz-=1; if self.cachesz==0{break;} }
      self.cache=(self.low>>24) as u8;
    }
    self.cachesz+=1; if self.cachesz>self.maxsz{self.maxsz=self.cachesz;}
    self.low=(self.low<<8)&0xFFFF_FFFF;
  }
}
// encode bit with prob; d = R - low (tracking), returns shifts
fn enc_bit(e:&mut Enc, prob:&mut u16, bit:bool, d:&mut u64){
  let bound=(e.range>>11)*(*prob as u32);
  if bit { *prob -= *prob>>5; e.low+=bound as u64; e.range-=bound; *d = d.wrapping_sub(bound as u64);} else { *prob += (0x800-*prob)>>5; e.range=bound; }
  while e.range<0x0100_0000 { e.range<<=8; e.write_low(); *d = d.wrapping_shl(8); }
}
fn enc_byte(e:&mut Enc, byte:u8){
  let mut d=0u64;
  let ps=e.n&3; let mut p=e.ism[ps]; enc_bit(e,&mut p,false,&mut d); e.ism[ps]=p;
  let ls=(e.prev>>5) as usize; let mut r=1usize;
  for i in 0..8 { let bit=((byte>>(7-i))&1)!=0; let mut p=e.lit[ls][r]; enc_bit(e,&mut p,bit,&mut d); e.lit[ls][r]=p; r=(r<<1)^(bit as usize);}  
  e.prev=byte; e.n+=1;
}
// follow: returns Some(byte) chosen, or None if is_match would need 1
fn follow_byte(e:&mut Enc, d:&mut u64)->Option<u8>{
  let ps=e.n&3; let mut p=e.ism[ps];
  let bound=((e.range>>11)*(p as u32)) as u64;
  if *d >= bound { return None; }
  enc_bit(e,&mut p,false,d); e.ism[ps]=p;
  let ls=(e.prev>>5) as usize; let mut r=1usize; let mut byte=0u8;
  for _ in 0..8 { let mut p=e.lit[ls][r]; let bound=((e.range>>11)*(p as u32)) as u64; let bit = *d > bound; // strict keeps low<R
    if !bit && *d==bound { return None; }
    enc_bit(e,&mut p,bit,d); e.lit[ls][r]=p; r=(r<<1)^(bit as usize); byte=(byte<<1)|(bit as u8);}  
  e.prev=byte; e.n+=1; Some(byte)
}
fn main(){
  let target: u64 = std::env::args().nth(1).map(|s|s.parse().unwrap()).unwrap_or(260);
  let mut seed: u64 = 0x9E3779B97F4A7C15;
  let mut best=0;
  for trial in 0..2_000_000u64 {
    let mut e=Enc::new(); let mut input=vec![];
    let plen = 300 + (trial%64) as usize;
    for _ in 0..plen { seed^=seed<<13; seed^=seed>>7; seed^=seed<<17; let b=(seed>>32) as u8; input.push(b); enc_byte(&mut e,b);}    
    // choose R = next multiple of 2^24 above low
    let r = ((e.low>>24)+1)<<24; let mut d = r - e.low; if d >= e.range as u64 { continue; }
    let mut ok=false;
    for _ in 0..(target as usize + 400) { match follow_byte(&mut e,&mut d){ Some(b)=>{input.push(b); if e.cachesz>=target {ok=true;break;}}, None=>break } }
    if e.maxsz>best{best=e.maxsz; eprintln!("trial {} best {}",trial,best);}    
    if ok { // append tail
      for b in b"tail bytes after the run" { input.push(*b);} 
      eprintln!("found trial {} len {}",trial,input.len());
      let s:Vec<String>=input.iter().map(|b|format!("0x{:02x}",b)).collect();
      for c in s.chunks(16){ println!("    {},",c.join(", ")); }
      return;
    }
  }
}
