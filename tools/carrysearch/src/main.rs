// One-off corpus generator (not part of any check): searches for byte strings that drive the literal-only LZMA
// range encoder (same algorithm as lzma-rs' dumbencoder + rangecoder, re-implemented here independently) into the
// rare state "write_low with a carry (low > 0xFFFF_FFFF) while the low 32 bits are >= 0xFF00_0000", and into long
// pending 0xFF runs.  The outputs are only CANDIDATE inputs: the checks run them through the Coq model and the crate.
struct Enc { range: u32, low: u64, cache: u8, cachesz: u32, hit_carry_ff: bool, max_csz: u32, carries: u32 }
impl Enc {
    fn new() -> Self { Enc { range: 0xFFFF_FFFF, low: 0, cache: 0, cachesz: 1, hit_carry_ff: false, max_csz: 1, carries: 0 } }
    fn write_low(&mut self) {
        if self.low > 0xFFFF_FFFF { self.carries += 1; if (self.low as u32) >= 0xFF00_0000 { self.hit_carry_ff = true; } }
        if self.low < 0xFF00_0000 || self.low > 0xFFFF_FFFF {
            self.cachesz = 0; self.cache = (self.low >> 24) as u8;
        }
        self.cachesz += 1; if self.cachesz > self.max_csz { self.max_csz = self.cachesz; }
        self.low = (self.low << 8) & 0xFFFF_FFFF;
    }
    fn bit(&mut self, prob: &mut u16, bit: bool) {
        let bound = (self.range >> 11) * (*prob as u32);
        if bit { *prob -= *prob >> 5; self.low += bound as u64; self.range -= bound; }
        else { *prob += (0x800 - *prob) >> 5; self.range = bound; }
        while self.range < 0x0100_0000 { self.range <<= 8; self.write_low(); }
    }
}
fn run(data: &[u8]) -> (bool, u32, u32) {
    let mut e = Enc::new();
    let mut lit = vec![[0x400u16; 0x300]; 8];
    let mut is_match = [0x400u16; 4];
    let mut prev = 0u8;
    for (i, &b) in data.iter().enumerate() {
        e.bit(&mut is_match[i & 3], false);
        let probs = &mut lit[(prev >> 5) as usize];
        let mut r = 1usize;
        for k in 0..8 { let bit = (b >> (7 - k)) & 1 != 0; e.bit(&mut probs[r], bit); r = (r << 1) ^ (bit as usize); }
        prev = b;
    }
    (e.hit_carry_ff, e.max_csz, e.carries)
}
fn main() {
    let args: Vec<String> = std::env::args().collect();
    let seed0: u64 = args.get(1).and_then(|s| s.parse().ok()).unwrap_or(1);
    let iters: u64 = args.get(2).and_then(|s| s.parse().ok()).unwrap_or(2_000_000);
    let mut s = seed0.wrapping_mul(0x9E3779B97F4A7C15) ^ 0xDEADBEEF;
    let mut next = move || { s = s.wrapping_add(0x9E3779B97F4A7C15); let mut z = s; z = (z ^ (z >> 30)).wrapping_mul(0xBF58476D1CE4E5B9); z = (z ^ (z >> 27)).wrapping_mul(0x94D049BB133111EB); z ^ (z >> 31) };
    let mut found = 0;
    for _ in 0..iters {
        // structured candidates: a few runs of one byte separated by another byte, plus a short random tail
        let a = (next() & 0xFF) as u8; let b = if next() % 3 == 0 { 0xFF } else { (next() & 0xFF) as u8 };
        let mut d = Vec::new();
        let runs = 1 + next() % 4;
        for _ in 0..runs { let n = next() % 70; for _ in 0..n { d.push(a); } d.push(b); }
        let t = next() % 6; for _ in 0..t { d.push((next() & 0xFF) as u8); }
        let (hit, csz, _c) = run(&d);
        if hit { println!("carry_ff {}", d.iter().map(|x| format!("{:02x}", x)).collect::<String>()); found += 1; if found >= 6 { break; } }
        else if csz >= 4 && next() % 64 == 0 { println!("ffrun{} {}", csz, d.iter().map(|x| format!("{:02x}", x)).collect::<String>()); }
    }
}
