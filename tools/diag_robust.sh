#!/bin/bash
# Robustness of detection: every stored seeded change against its OWN check under other VERIF_SEED values.
# usage: tools/diag_robust.sh <worktree> <verif seeds, comma separated> <batchdir:id>...  -> build/diag_robust.txt
wt=$1; seeds=$2; shift 2
cd /verif
for item in "$@"; do
  d=${item%%:*}; id=${item##*:}
  git -C $wt checkout -q -- . && git -C $wt apply /verif/$d/$id/patch.diff || { echo "$d $id PATCHFAIL" >> build/diag_robust.txt; continue; }
  for s in ${seeds//,/ }; do
    out=$(VERIF_SEED=$s LZ_REPO=$wt ./check $id 2>&1)
    if echo "$out" | grep -q "INFRA"; then v=infra
    elif echo "$out" | grep "VIOLATION" | grep -v "_proof.json" | grep -vq "no-failing-input-found"; then v=VIOLATION
    elif echo "$out" | grep "VIOLATION" | grep -v "_proof.json" | grep -q "no-failing-input-found"; then v=corr-only
    else v=MISSED; fi
    echo "$d $id seed=$s $v" >> build/diag_robust.txt
  done
  git -C $wt checkout -q -- .
done
