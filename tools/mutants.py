#!/usr/bin/env python3
"""Mechanical mutation testing of the correspondence checks (a testing aid, not part of any registered check).

For a random sample of single-token mutants of /repo/src (relational / arithmetic / logical operator swaps, numeric
literal +-1, statement deletion, condition negation) this tool
  1. applies the mutant to a scratch copy of /repo under /tmp/mut/w<i>/repo (never to /repo itself),
  2. keeps it only if it compiles and the repository's own test suite still passes (a "realistic" change),
  3. builds the harness against it and runs the saved quick-tier case lines of all 18 checks (build/cov/cases.txt,
     written by tools/coverage.sh); a mutant is KILLED if any case's result differs from the unchanged crate's result -
     on those cases the unchanged crate agrees with the Coq model, so a difference is exactly a broken correspondence,
     i.e. what ./check reports as a VIOLATION.
Survivors (same result on every case) are either equivalent mutants or blind spots of the generators; they are listed in
build/mut/survivors.txt for inspection.

usage: tools/mutants.py [--n 200] [--workers 4] [--seed 1] [--only file.rs]
"""
import os, re, sys, random, shutil, subprocess, json, time, argparse
from concurrent.futures import ThreadPoolExecutor

ROOT = '/verif'
OUT = os.path.join(ROOT, 'build', 'mut')
SCRATCH = '/tmp/mut'
CASES = os.path.join(ROOT, 'build', 'cov', 'cases.txt')

def sh(cmd, cwd=None, env=None, timeout=1800):
    try:
        p = subprocess.run(cmd, shell=True, cwd=cwd, env=env, stdout=subprocess.PIPE, stderr=subprocess.STDOUT, timeout=timeout)
        return p.returncode, p.stdout.decode(errors='replace')
    except subprocess.TimeoutExpired:
        return 124, 'timeout'

def source_lines():
    """(relative path, line index, line) of non-test source lines"""
    res = []
    for dp, dn, fn in os.walk('/repo/src'):
        for f in sorted(fn):
            if not f.endswith('.rs'): continue
            path = os.path.join(dp, f)
            rel = os.path.relpath(path, '/repo')
            lines = open(path).read().split('\n')
            in_test = False
            for i, l in enumerate(lines):
                if re.match(r'\s*#\[cfg\(test\)\]', l): in_test = True       # test modules sit at the end of each file
                if in_test: continue
                s = l.strip()
                if not s or s.startswith('//') or s.startswith('#[') or s.startswith('use ') or s.startswith('///'): continue
                res.append((rel, i, l))
    return res

SWAPS = [(' <= ', ' < '), (' >= ', ' > '), (' < ', ' <= '), (' > ', ' >= '), (' == ', ' != '), (' != ', ' == '),
         (' && ', ' || '), (' || ', ' && '), (' + ', ' - '), (' - ', ' + '), (' << ', ' >> '), (' >> ', ' << '),
         (' & ', ' | '), (' | ', ' & '), (' ^ ', ' | '), (' += ', ' -= '), (' -= ', ' += '), (' * ', ' + '),
         ('.min(', '.max('), ('.max(', '.min('), ('wrapping_sub', 'wrapping_add'), ('wrapping_add', 'wrapping_sub'),
         ('true', 'false'), ('false', 'true'), ('Some(', 'None::<u64>.or(Some('), (' < ', ' > '), (' > ', ' < ')]

def mutants_of(rel, i, l):
    out = []
    code = l.split('//')[0]
    if re.search(r'lzma_(info|debug|trace)!', code) or (code.strip().startswith('"') and '{' in code):
        return out                      # logging and message text: not behaviour
    def in_string(pos):
        return code[:pos].count('"') % 2 == 1
    generic = bool(re.search(r'\bfn \b|\bimpl\b|\bstruct\b|\btrait\b|->|::<|\bwhere\b|<[A-Z]\w*[:,>]|&\'|dyn ', code))
    for a, b in SWAPS:
        if a in (' < ', ' > ') and generic: continue
        if a == 'Some(' : continue
        for m in re.finditer(re.escape(a), code):
            if in_string(m.start()): continue
            out.append((rel, i, 'swap %r->%r@%d' % (a.strip(), b.strip(), m.start()), l[:m.start()] + b + l[m.end():]))
    for m in re.finditer(r'(?<![\w.])(0x[0-9A-Fa-f_]+|\d[\d_]*)(?![\w.]*\")', code):
        tok = m.group(1)
        if in_string(m.start()): continue
        if re.match(r'.*\b(u8|u16|u32|u64|usize|i32)\b', tok): continue
        try: v = int(tok.replace('_', ''), 0)
        except ValueError: continue
        for d in (1, -1):
            if v + d < 0: continue
            nv = hex(v + d) if tok.startswith('0x') else str(v + d)
            out.append((rel, i, 'lit %s->%s@%d' % (tok, nv, m.start()), l[:m.start()] + nv + l[m.end():]))
    s = code.strip()
    if re.match(r'^(self\.)?[\w\.\[\]\* ]+\s(=|\+=|-=|<<=|>>=|\|=|\^=|&=)\s.*;$', s) and not s.startswith('let '):
        out.append((rel, i, 'delete statement', re.match(r'\s*', l).group(0) + '// deleted'))
    if re.match(r'^[\w\.]+(\.\w+)*\([^;]*\)\??;$', s) and not s.startswith('return'):
        out.append((rel, i, 'delete call', re.match(r'\s*', l).group(0) + '// deleted'))
    m = re.match(r'^(\s*(?:\} else )?if )([^{]+?)( \{)\s*$', l)
    if m and 'let ' not in m.group(2):
        out.append((rel, i, 'negate condition', m.group(1) + '!(' + m.group(2) + ')' + m.group(3)))
    return out

def setup_worker(w):
    d = os.path.join(SCRATCH, 'w%d' % w)
    shutil.rmtree(d, ignore_errors=True)
    os.makedirs(d)
    sh('rsync -a --exclude target --exclude .git /repo/ %s/repo/' % d)
    h = os.path.join(d, 'harness')
    os.makedirs(os.path.join(h, 'src')); os.makedirs(os.path.join(h, '.cargo'))
    open(os.path.join(h, 'Cargo.toml'), 'w').write(open(os.path.join(ROOT, 'harness', 'Cargo.toml')).read().replace('path = "/repo"', 'path = "%s/repo"' % d))
    shutil.copy(os.path.join(ROOT, 'harness', 'src', 'main.rs'), os.path.join(h, 'src', 'main.rs'))
    shutil.copy(os.path.join(ROOT, 'harness', '.cargo', 'config.toml'), os.path.join(h, '.cargo', 'config.toml'))
    shutil.copy('/repo/Cargo.lock', os.path.join(h, 'Cargo.lock'))
    return d

def run_cases(d, nshards):
    """run the harness of worker dir d on the case shards; returns list of result lines (concatenated in shard order)"""
    env = dict(os.environ, CARGO_NET_OFFLINE='true')
    procs = []
    for k in range(nshards):
        procs.append(subprocess.Popen('timeout 900 %s/target/debug/lzrs %s/shard_%02d > %s/out_%02d.txt 2>/dev/null' % (d, OUT, k, d, k), shell=True, env=env))
    for p in procs: p.wait()
    res = []
    for k in range(nshards):
        res += open('%s/out_%02d.txt' % (d, k), errors='replace').read().split('\n')
    return res

def canon(line):
    # drop fields that legitimately vary between runs (peak heap is measured, wall time)
    return re.sub(r' peak=\d+', '', line)

def main():
    ap = argparse.ArgumentParser()
    ap.add_argument('--n', type=int, default=200); ap.add_argument('--workers', type=int, default=4)
    ap.add_argument('--seed', type=int, default=1); ap.add_argument('--only', default=None); ap.add_argument('--shards', type=int, default=4)
    a = ap.parse_args()
    os.makedirs(OUT, exist_ok=True)
    if not os.path.exists(CASES): sys.exit('run tools/coverage.sh first (it writes %s)' % CASES)
    sh('rm -f %s/shard_*; split -d -n l/%d %s %s/shard_' % (OUT, a.shards, CASES, OUT))
    allm = []
    for rel, i, l in source_lines():
        if a.only and a.only not in rel: continue
        allm += mutants_of(rel, i, l)
    random.Random(a.seed).shuffle(allm)
    sample = allm[:a.n]
    print('%d candidate mutants, sampling %d' % (len(allm), len(sample)), flush=True)
    env = dict(os.environ, CARGO_NET_OFFLINE='true')
    # baseline
    d0 = setup_worker(99)
    rc, out = sh('cargo build --offline', cwd=d0 + '/harness', env=dict(env, CARGO_TARGET_DIR=d0 + '/target'))
    if rc: sys.exit('baseline harness build failed: ' + out[-2000:])
    base = [canon(x) for x in run_cases(d0, a.shards)]
    print('baseline: %d result lines' % len(base), flush=True)
    log = open(os.path.join(OUT, 'log_seed%d.txt' % a.seed), 'a')
    surv = open(os.path.join(OUT, 'survivors.txt'), 'a')
    def work(args):
        w, jobs = args
        d = setup_worker(w)
        wenv = dict(env, CARGO_TARGET_DIR=d + '/target')
        sh('cargo build --offline', cwd=d + '/harness', env=wenv)
        sh('cargo test --offline --no-run', cwd=d + '/repo', env=wenv)
        for rel, i, desc, newline in jobs:
            path = os.path.join(d, 'repo', rel)
            orig = open(os.path.join('/repo', rel)).read()
            lines = orig.split('\n'); old = lines[i]; lines[i] = newline
            open(path, 'w').write('\n'.join(lines))
            tag = '%s:%d %s | %s  =>  %s' % (rel, i + 1, desc, old.strip()[:90], newline.strip()[:90])
            t0 = time.time()
            rc, out = sh('timeout 600 cargo build --offline', cwd=d + '/harness', env=wenv)
            if rc:
                verdict = 'nocompile'
            else:
                rc, out = sh('timeout 900 cargo test --offline --no-fail-fast', cwd=d + '/repo', env=wenv, timeout=1000)
                if rc:
                    verdict = 'killed-by-suite'
                else:
                    res = [canon(x) for x in run_cases(d, a.shards)]
                    ndiff = sum(1 for x, y in zip(res, base) if x != y) + abs(len(res) - len(base))
                    verdict = 'KILLED diff=%d' % ndiff if ndiff else 'SURVIVED'
            log.write('%s\t%s\t%.0fs\n' % (verdict, tag, time.time() - t0)); log.flush()
            if verdict == 'SURVIVED':
                surv.write(tag + '\n'); surv.flush()
            open(path, 'w').write(orig)
        shutil.rmtree(d, ignore_errors=True)
    jobs = [(w, sample[w::a.workers]) for w in range(a.workers)]
    with ThreadPoolExecutor(a.workers) as ex:
        list(ex.map(work, jobs))
    shutil.rmtree(d0, ignore_errors=True)
    print('done', flush=True)

if __name__ == '__main__':
    main()
