#!/bin/bash
# usage: tools/try_seed.sh <patch.diff> <property id>...   applies the patch to /repo, runs the checks, reverts
patch="$1"; shift
git -C /repo apply "$patch" || { echo "patch does not apply"; exit 3; }
for p in "$@"; do
  out=$(/verif/check "$p" 2>&1)
  echo "$out" | grep -E "VIOLATION|KNOWN|INFRA" | grep -v "_proof.json" | head -3
  echo "$out" | tail -1
done
git -C /repo checkout -- . ; git -C /repo status --short | head -2
