#!/bin/bash
# all 18 quick checks on the unchanged tree under several VERIF_SEEDs (false-alarm hunt); usage: tools/run_seeds.sh <outfile> <seed>...
cd /verif; out=$1; shift; : > $out
for s in "$@"; do for p in C01 C02 C03 C04 C05 C06 C07 C08 C09 C10 C11 C12 C13 C14 C15 C16 C17 C18; do echo "seed=$s $(VERIF_SEED=$s ./check $p 2>&1 | tail -1)" >> $out; done; done
