#!/bin/bash
# runs the thorough tier of all 18 checks one after another; result lines in build/thorough_final.txt
cd /verif
for p in C01 C02 C03 C04 C05 C06 C07 C08 C09 C10 C11 C12 C13 C14 C15 C16 C17 C18; do echo "$(date -u +%H:%M) $(./check $p --tier thorough 2>&1 | tail -1)"; done > build/thorough_final.txt 2>&1
