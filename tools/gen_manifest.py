#!/usr/bin/env python3
"""Regenerates MANIFEST.json from the table below; a property is claimed iff coq/Props/<id>.v exists."""
import json, os
ROOT = os.path.dirname(os.path.dirname(os.path.abspath(__file__)))
props = [json.loads(l) for l in open(os.path.join(ROOT, 'properties.jsonl'))]
NOTE_COMMON = ('Trusted: Coq 8.16.1 kernel; no axioms (Print Assumptions of each property theorem is checked to be "Closed under the global context" on every run); '
               'the hand-written Gallina model coq/Model/*.v is tied to /repo only by the differential correspondence run of this check (extracted OCaml model vs the crate rebuilt from the working tree, same case files); '
               'extraction with ExtrOcamlBasic only; CRCs, std I/O adapters, allocator and 64-bit usize are modelled, not verified. ')
T = {
 'C17': ('Machine-checked theorems on the model of Lzma2Decoder::decompress, for every decoder state and accumulated history, every fragmentation of a fault-free reader and every short-writing sink: success implies that at EVERY chunk position reached the remaining input does not start with a malformed chunk (input ending where a control byte is expected, control byte 0x03-0x7F, truncated chunk header, uncompressed chunk shorter than declared, missing / >= 225 / lc+lp > 4 property byte, packed size below the five coder bytes); a compressed chunk is accepted only if its payload produced exactly the declared uncompressed size; reads beyond the declared compressed size hit the Take limit and fail. Tied to the crate by mutating each framing field of well-formed sequences at every chunk position.',
         'Coq proof (decision rules + loop invariant over chunk positions) + differential correspondence on framing mutants',
         'The clause "payload needs more input than its declared compressed size" is proved at the read / normalise / rc_new level (Take limit = EOF); the symbol-level statement that a well-formed payload cut short always reaches such a read follows from the lock-step theorem and is covered by the correspondence run.'),
 'C13': ('Machine-checked theorems on the model: for every input (valid or not), every fuel and option, any two fault-free sources over the same bytes - whatever their refill policies (buffer capacities, short-read patterns, partly consumed buffers, Take limits) - give the same verdict, the same sink contents and the same consumed count for lzma_decompress_with_options, lzma2_decompress and xz_decompress (relational proof through every layer: derived reads, range decoder, symbol decoder by handler refinement, process_mode / chunk / block loops by loop simulation). Tied to the crate by running every input under slice, Cursor, BufReader capacities and cyclic short-read readers.',
         'Coq proof (relational / handler-refinement argument over all source policies) + differential correspondence across reader kinds',
         'Known finding (known_findings.txt): after an Err inside an XZ block header the real reader position depends on the fragmentation, because read_block parses through a BufReader that reads ahead; the model abstracts that reader by its net effect (DESIGN.md section 4), so the theorem speaks about the model position.'),
 'C06': ('Machine-checked soundness theorem for the model of xz_decompress with the CRC functions as arbitrary parameters: success implies that the complete input is exactly one stream hdr ++ blocks ++ index ++ footer in which header magic/flags/CRC32, every block header CRC32, declared block sizes, zero padding, every block check (CRC32/CRC64 of the decoded output), the index record count and per-block sizes and CRC32, and the footer CRC32, flags and backward size (compared in unbounded arithmetic) all agree with the decoded data, nothing follows the footer, and the sink received exactly the blocks\' outputs (inversion of the parser, induction over the block loop). The no-silent-corruption consequence is tested by exhaustive single-bit flips of sample files and by one mutant per integrity field with enclosing CRCs recomputed.',
         'Coq proof (inversion of the monadic parser, loop invariant over blocks) + differential correspondence on field mutants, bit flips, truncations',
         'Absence of CRC collisions is tested, not proved. The block-header reader (BufReader<CrcDigestRead<Take>>) is modelled by its net effect.'),
 'C18': ('Machine-checked theorems on the model of the XZ decoder: success implies that the input is exactly one stream (nothing left unread: no second stream, no stream padding), that the check type is None/CRC32/CRC64 whenever a block exists (a SHA-256 block never validates), and decision rules: unassigned check IDs, any reserved stream-flag bit, any reserved block-flag bit and any filter ID other than 0x21 make the parser fail. Tied to the crate by re-serialising well-formed files with each unsupported feature.',
         'Coq proof (corollaries of the soundness theorem and parser decision rules) + differential correspondence',
         'A zero-block file declaring SHA-256 is accepted by design (nothing is skipped); documented in DESIGN.md.'),
 'C04': ('Machine-checked theorems: lzma_compress emits, for EVERY byte string, reader fragmentation, non-failing sink and option, exactly header ++ the reference encoding (format theory) of the literal program plus end marker; underlying lemmas: for EVERY sequence of (probability, bit) steps the model of RangeEncoder (cache/carry propagation, 0xFF runs) plus finish() emits exactly the canonical byte string of the ideal unbounded-precision range encoder of the format theory, to sinks accepting any number of bytes per write; and the end marker written by dumbencoder.rs with probability-0x400 bits equals direct-bit coding for every reachable range. Round trip and byte-for-byte conformance of the three compressors with the reference encoding are checked by the differential run (model, crate, reference encoder, xz binary when present).',
         'Coq proof (carry lemma, refinement of the ideal encoder, phase invariant for the marker) + differential correspondence',
         'lzma_compress is proved conformant end to end (C04_lzma_compress_conformant: every input, fragmentation, short-writing sink, all three options, empty input). The LZMA2/XZ writers and the decode(encode) round trip are covered by the correspondence run (byte-for-byte model agreement, round trip through crate, model and xz).'),
 'C05': ('Partial proof: machine-checked lemmas on which the streaming look-ahead rests - a symbol step consumes at most MAX_REQUIRED_INPUT = 20 bytes from any source (exact integer argument, including the 23-bit slot-12/13 path that the source comment misses), and the dry run consumes exactly the events of the real run without changing state. The equivalence streaming = one-shot itself is decided on every run by the differential check (Stream vs lzma_decompress on the crate and on the model, all chunkings of short inputs, cuts in the first 40 bytes, random compositions).',
         'Coq proof of the look-ahead lemmas (partial) + differential correspondence stream/one-shot/model',
         'Partial: the simulation theorem C05_stream_equals_oneshot is not proved yet.'),
 'C07': ('Machine-checked theorems for ARBITRARY input bytes (no well-formedness): one symbol step of the decoder on any world satisfying the invariant (registers < 2^32, probabilities in [31,2017], table shapes, window bytes < 256, dictionary > 0) never panics - no integer overflow/underflow, no out-of-bounds table or window index, no division by zero - and re-establishes the invariant, which holds initially; a symbol step consumes at most 20 bytes. Panics, hangs and heap growth of every public entry point are additionally checked on random and mutated inputs in overflow-checked and release builds under catch_unwind, a watchdog and a counting allocator.',
         'Coq proof (state invariants of the decoder core) + differential correspondence + catch_unwind/watchdog/allocator measurements',
         'Partial: lifting the invariant through process_mode / LZMA2 / XZ loops and the fuel (termination) bound are not yet theorems; real heap and wall-clock are measured, not proved.'),
 'C08': ('Machine-checked theorems about process_mode in Finish mode: with a size in effect success implies exactly that many bytes were produced (so truncation, an early end marker and an overshooting match are errors); with no size in effect success implies that the end marker was decoded (rep0 = 0xFFFFFFFF) and the range coder ended with code = 0; decoding never changes the size in effect. The three header options are proved to consume 13/13/5 bytes for every reader fragmentation and to select the size in effect as specified (caller-supplied value always overrides), and the size rule is proved end to end through lzma_decompress_with_options. The streaming API is checked by the differential run over the full option matrix.',
         'Coq proof (loop invariants of process_mode) + differential correspondence',
         'The link from the window length to the bytes in the sink is the window theorem (C09/C10); the streaming API is covered by the correspondence run.'),
 'C09': ('Machine-checked refinement theorems: the model of LzCircularBuffer (lazy growth, flush on wrap, wrapping/overlapping copy loop) and of LzAccumBuffer refine a plain history list; a copy or matched-literal read succeeds iff 1 <= dist <= min(produced, dict) (resp. bytes since the last dictionary reset) and then yields exactly the LZ77 copy of the history, otherwise Err with the window untouched - so no zero default or stale lap content is ever observed. Tied to the crate by programs with one out-of-window copy at every position relative to the wrap point.',
         'Coq proof (refinement invariant circular/accumulating window vs history list) + differential correspondence',
         'Stated at the window (LzBuffer) level; the end-to-end iff with sem awaits the C01 composition.'),
 'C10': ('Machine-checked theorems on the model of LzCircularBuffer: in every reachable state the buffer holds at most memlimit bytes; an append succeeds exactly when min(produced+n, dict) <= memlimit and then behaves as without a limit, otherwise it fails with Err while the sink holds a prefix of the output. The counting allocator measures the real heap; the streaming decoder is covered by the differential run.',
         'Coq proof (window invariant incl. memlimit) + differential correspondence + allocator measurement',
         'Stated at the window level; heap is measured, not proved.'),
 'C14': ('Machine-checked Coq theorem over the model of the raw LzmaDecoder: for EVERY history of decompress calls (any input, any sink, failing or not) and resets, reset(us) yields exactly the DecoderState of a freshly constructed decoder with the same properties, dictionary size, memory limit and re-specified/retained size, hence the next decompress has the same verdict and the same effect on source and sink (induction over histories; invariant: partial-input buffer empty, literal table shape matches lc+lp). The same theorem is proved for the raw Lzma2Decoder (C14_lzma2_reset_equals_new), including that the stale size field surviving a reset is dead.',
         'Coq proof (invariant over operation histories) + differential correspondence model/crate',
         'Results computed from the state left by a FAILED decompress without an intervening reset are compared implementation-only (reused vs fresh decoder), not against the model (DESIGN.md section 4).'),
 'C16': ('Machine-checked Coq theorems over the model of Stream::{write,flush,finish}: after any write that did not return Ok the state is gone, and for EVERY later call sequence writes return Ok(0), flush is Ok, the stream and sink are unchanged and finish fails; once the declared size is reached every write returns Ok(0) leaving decoder, window and sink unchanged (induction over call lists). The model is tied to the code by differential runs of random call sequences.',
         'Coq proof (induction over call sequences) + differential correspondence model/crate',
         'The no-panic clause of C16 is covered by the correspondence run and by C07, not by a theorem yet.'),
}
checks, na = [], []
for p in props:
    pid = p['id']
    if os.path.exists(os.path.join(ROOT, 'coq', 'Props', pid + '.v')) and pid in T:
        text, tech, note = T[pid]
        checks.append({
            'property_id': pid,
            'quick_cmd': './check %s --tier quick' % pid,
            'thorough_cmd': './check %s --tier thorough' % pid,
            'evidence_file': 'evidence/%s.json' % pid,
            'replay_cmd_template': './check %s --replay {path}' % pid,
            'engine': 'coq-model-correspondence',
            'level_claimed': {'category': 'proof', 'text': text, 'design_ref': 'DESIGN.md section 7, ' + pid},
            'level_note': NOTE_COMMON + note,
            'technique': tech,
        })
    else:
        na.append({'property_id': pid, 'reason': 'correspondence check (./check %s) is built and detects the seeded mutations, but no Coq theorem for this property is committed yet; it is not claimed until one is' % pid})
m = {
 'version': 1,
 'setup_cmd': './check --setup',
 'hooks': {'guard': 'lzma_rs_verif', 'enable': 'no source hooks are needed: the harness crate reaches everything through the public API with features stream,raw_decoder (path dependency on /repo)',
           'baseline_off_cmd': 'cd /repo && cargo test --workspace --no-fail-fast --offline', 'source_commits': [], 'add_only': True},
 'engines': [{'name': 'coq-model-correspondence', 'path': 'check', 'serves_properties': [c['property_id'] for c in checks],
              'kind_free_text': 'Coq 8.16 theorems about a hand-written executable model (coq/), extracted to OCaml (build/ocaml/modelrun) and compared with the real crate (harness/) on generated case files (gen/)'}],
 'checks': checks,
 'not_applicable': na,
 'notes': 'All 18 properties have a working correspondence check; a property moves from not_applicable to checks when its Props/<id>.v with machine-checked theorems is committed. See DESIGN.md.',
}
json.dump(m, open(os.path.join(ROOT, 'MANIFEST.json'), 'w'), indent=1)
print('claimed:', [c['property_id'] for c in checks])
