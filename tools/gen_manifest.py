#!/usr/bin/env python3
"""Regenerates MANIFEST.json from the table below; a property is claimed iff coq/Props/<id>.v exists."""
import json, os
ROOT = os.path.dirname(os.path.dirname(os.path.abspath(__file__)))
props = [json.loads(l) for l in open(os.path.join(ROOT, 'properties.jsonl'))]
NOTE_COMMON = ('Trusted: Coq 8.16.1 kernel; no axioms (Print Assumptions of each property theorem is checked to be "Closed under the global context" on every run); '
               'the hand-written Gallina model coq/Model/*.v is tied to /repo only by the differential correspondence run of this check (extracted OCaml model vs the crate rebuilt from the working tree, same case files); '
               'extraction with ExtrOcamlBasic only; CRCs, std I/O adapters, allocator and 64-bit usize are modelled, not verified. ')
T = {
 'C14': ('Machine-checked Coq theorem over the model of the raw LzmaDecoder: for EVERY history of decompress calls (any input, any sink, failing or not) and resets, reset(us) yields exactly the DecoderState of a freshly constructed decoder with the same properties, dictionary size, memory limit and re-specified/retained size, hence the next decompress has the same verdict and the same effect on source and sink (induction over histories; invariant: partial-input buffer empty, literal table shape matches lc+lp). The Lzma2Decoder half is covered by the differential run (reused vs fresh decoder, and model), no theorem yet.',
         'Coq proof (invariant over operation histories) + differential correspondence model/crate',
         'LZMA2 reset: correspondence only.'),
 'C16': ('Machine-checked Coq theorems over the model of Stream::{write,flush,finish}: after any write that did not return Ok the state is gone, and for EVERY later call sequence writes return Ok(0), flush is Ok, the stream and sink are unchanged and finish fails; once the declared size is reached every write returns Ok(0) leaving decoder, window and sink unchanged (induction over call lists). The model is tied to the code by differential runs of random call sequences.',
         'Coq proof (induction over call sequences) + differential correspondence model/crate',
         'The no-panic clause of C16 is covered by the correspondence run and by C07, not by a theorem yet.'),
}
checks, na = [], []
for p in props:
    pid = p['id']
    if os.path.exists(os.path.join(ROOT, 'coq', 'Props', pid + '.v')) and pid in T:
        text, tech, note = T[pid]
        checks.append({
            'property_id': pid,
            'quick_cmd': './check %s --tier quick' % pid,
            'thorough_cmd': './check %s --tier thorough' % pid,
            'evidence_file': 'evidence/%s.json' % pid,
            'replay_cmd_template': './check %s --replay {path}' % pid,
            'engine': 'coq-model-correspondence',
            'level_claimed': {'category': 'proof', 'text': text, 'design_ref': 'DESIGN.md section 7, ' + pid},
            'level_note': NOTE_COMMON + note,
            'technique': tech,
        })
    else:
        na.append({'property_id': pid, 'reason': 'correspondence check (./check %s) is built and detects the seeded mutations, but no Coq theorem for this property is committed yet; it is not claimed until one is' % pid})
m = {
 'version': 1,
 'setup_cmd': './check --setup',
 'hooks': {'guard': 'lzma_rs_verif', 'enable': 'no source hooks are needed: the harness crate reaches everything through the public API with features stream,raw_decoder (path dependency on /repo)',
           'baseline_off_cmd': 'cd /repo && cargo test --workspace --no-fail-fast --offline', 'source_commits': [], 'add_only': True},
 'engines': [{'name': 'coq-model-correspondence', 'path': 'check', 'serves_properties': [c['property_id'] for c in checks],
              'kind_free_text': 'Coq 8.16 theorems about a hand-written executable model (coq/), extracted to OCaml (build/ocaml/modelrun) and compared with the real crate (harness/) on generated case files (gen/)'}],
 'checks': checks,
 'not_applicable': na,
 'notes': 'All 18 properties have a working correspondence check; a property moves from not_applicable to checks when its Props/<id>.v with machine-checked theorems is committed. See DESIGN.md.',
}
json.dump(m, open(os.path.join(ROOT, 'MANIFEST.json'), 'w'), indent=1)
print('claimed:', [c['property_id'] for c in checks])
