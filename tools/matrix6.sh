#!/bin/bash
# Detection matrix: every seeded change (applied in its scratch worktree /tmp/wt6/<id>) against every check.
# usage: tools/matrix.sh <seed id>...   -> appends lines "seed check verdict" to build/matrix6.txt
cd /verif
for sid in "$@"; do
  wt=/tmp/wt6/$sid
  git -C $wt checkout -q -- . && git -C $wt apply /verif/seeded6/$sid/patch.diff || { echo "$sid PATCHFAIL" >> build/matrix6.txt; continue; }
  for p in C01 C02 C03 C04 C05 C06 C07 C08 C09 C10 C11 C12 C13 C14 C15 C16 C17 C18; do
    out=$(LZ_REPO=$wt ./check $p 2>&1)
    if echo "$out" | grep -q "INFRA"; then v=infra
    elif echo "$out" | grep "VIOLATION" | grep -v "_proof.json" | grep -vq "no-failing-input-found"; then v=VIOLATION
    elif echo "$out" | grep "VIOLATION" | grep -v "_proof.json" | grep -q "no-failing-input-found"; then v=corr-only
    else v=-; fi
    echo "$sid $p $v" >> build/matrix6.txt
  done
  git -C $wt checkout -q -- .
  rm -rf build/alt/wt6_$sid/target
done
