#!/bin/bash
# One-off measurement (not part of any registered check): which branches of the extracted Coq model are executed by the
# quick-tier case files of all 18 checks (build/cov/cases.txt, written by tools/coverage.sh).  Uses ocamlcp/ocamlprof.
set -e
cd /verif
M=/verif/build/mcov; rm -rf $M; mkdir -p $M
[ -f build/cov/cases.txt ] || { echo "run tools/coverage.sh first"; exit 2; }
cp build/ocaml/model.ml build/ocaml/model.mli ocaml/driver.ml $M/
(cd $M && ocamlfind ocamlcp -P a -w -a model.mli model.ml driver.ml -o modelrun_prof 2>&1 | grep -v -i warning | head -5)
split -n l/16 build/cov/cases.txt $M/part_
# ocamlprof.dump accumulates across runs in the same directory; run the parts one after another
for f in $M/part_*; do (cd $M && ./modelrun_prof $f > /dev/null); done
(cd $M && ocamlprof model.ml > model_prof.ml)
python3 - <<'EOF'
import re
cur=None; stats={}
for line in open('/verif/build/mcov/model_prof.ml'):
    m=re.match(r'(let rec|let|and) ([a-zA-Z_0-9\']+)',line)
    if m: cur=m.group(2)
    pts=re.findall(r'\(\* (\d+) \*\)',line)
    if pts and cur:
        z=sum(1 for p in pts if p=='0')
        panic=z if re.search(r'Panic|mpanic',line) else 0
        s=stats.setdefault(cur,[0,0,0]); s[0]+=z; s[1]+=len(pts); s[2]+=panic
tot=sum(t for z,t,p in stats.values()); zero=sum(z for z,t,p in stats.values()); pz=sum(p for z,t,p in stats.values())
print("instrumentation points: %d, unexecuted: %d (of which panic arms: %d)"%(tot,zero,pz))
print("functions never entered:", ' '.join(k for k,(z,t,p) in stats.items() if z==t))
print("functions with unexecuted non-panic points:")
for k,(z,t,p) in stats.items():
    if 0<z<t and z>p: print("  %s %d/%d (panic arms %d)"%(k,z,t,p))
EOF
rm -f $M/part_* $M/*.cm* $M/modelrun_prof
