#!/bin/bash
# One-off measurement (not part of any registered check): line coverage of /repo/src reached by the quick-tier case files
# of all 18 checks, using an instrumented build of the harness with the nightly toolchain's llvm tools.
set -e
cd /verif
COV=/verif/build/cov; rm -rf $COV; mkdir -p $COV
export LZ_SAVE_CASES=$COV/cases.txt
for p in C01 C02 C03 C04 C05 C06 C07 C08 C09 C10 C11 C12 C13 C14 C15 C16 C17 C18; do LZ_REPO=/repo ./check $p > /dev/null 2>&1 || true; done
unset LZ_SAVE_CASES
wc -l $COV/cases.txt
BIN=/root/.rustup/toolchains/nightly-x86_64-unknown-linux-gnu/lib/rustlib/x86_64-unknown-linux-gnu/bin
(cd harness && CARGO_TARGET_DIR=$COV/target RUSTFLAGS="-C instrument-coverage" cargo +nightly build --offline 2>&1 | tail -2)
split -n l/16 $COV/cases.txt $COV/part_
for f in $COV/part_*; do LLVM_PROFILE_FILE=$COV/prof-%p.profraw $COV/target/debug/lzrs $f > /dev/null & done; wait
$BIN/llvm-profdata merge -sparse $COV/prof-*.profraw -o $COV/all.profdata
$BIN/llvm-cov report $COV/target/debug/lzrs -instr-profile=$COV/all.profdata $(find /repo/src -name '*.rs') 2>/dev/null | sed 's/  */ /g' > $COV/report.txt
$BIN/llvm-cov show $COV/target/debug/lzrs -instr-profile=$COV/all.profdata $(find /repo/src -name '*.rs') --show-line-counts-or-regions 2>/dev/null > $COV/show.txt
cat $COV/report.txt
rm -rf $COV/target $COV/prof-*.profraw $COV/part_*
