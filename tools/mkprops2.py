#!/usr/bin/env python3
"""Like mkprops.py, but the pinned statement text is obtained from Coq itself (`Check lemma.` with all the needed modules imported),
so that theorems proved inside sections or with many binders are pinned exactly.  The generated Props file is then compiled by make,
which checks that `exact lemma` proves the pinned statement."""
import re, sys, os, subprocess, tempfile
ROOT = os.path.dirname(os.path.dirname(os.path.abspath(__file__)))
COQ = os.path.join(ROOT, 'coq')

BASE_IMPORTS = ['Base.Prelude', 'Base.Prog', 'Model.Io', 'Model.Tables', 'Model.LzBuffer', 'Model.RangeDec', 'Model.Lzma']

def coq_unfolded(imports, defs):
    """statement text of Definitions `X : Prop`, unfolded one level (Eval cbv beta delta [X] in X)"""
    imports = BASE_IMPORTS + [i for i in imports if i not in BASE_IMPORTS]
    res = {}
    for d in defs:
        src = 'From LZ Require Import %s.\nSet Printing Width 118.\nSet Printing Depth 1000.\nEval cbv beta delta [%s] in %s.\n' % (' '.join(imports), d, d)
        with tempfile.NamedTemporaryFile('w', suffix='.v', delete=False, dir='/tmp') as f:
            f.write(src); path = f.name
        out = subprocess.run('coqc -q -Q %s LZ %s' % (COQ, path), shell=True, stdout=subprocess.PIPE, stderr=subprocess.STDOUT).stdout.decode()
        os.unlink(path)
        for ext in ('.vo', '.vok', '.vos', '.glob'):
            try: os.unlink(path[:-2] + ext)
            except OSError: pass
        m = re.match(r'\s*= (.*)\n     : Prop\s*$', out, re.S)
        if not m: raise SystemExit('could not unfold %s\n%s' % (d, out[-2000:]))
        res[d] = '\n'.join(l[7:] if l.startswith('       ') else l for l in m.group(1).rstrip().split('\n'))
    return res

def coq_statements(imports, lemmas):
    imports = BASE_IMPORTS + [i for i in imports if i not in BASE_IMPORTS]
    src = 'From LZ Require Import %s.\nSet Printing Width 118.\nSet Printing Depth 1000.\n' % ' '.join(imports)
    for l in lemmas:
        src += 'Check @%s.\n' % l
    with tempfile.NamedTemporaryFile('w', suffix='.v', delete=False, dir='/tmp') as f:
        f.write(src); path = f.name
    out = subprocess.run('coqc -q -Q %s LZ %s' % (COQ, path), shell=True, stdout=subprocess.PIPE, stderr=subprocess.STDOUT).stdout.decode()
    os.unlink(path)
    for ext in ('.vo', '.vok', '.vos', '.glob'):
        try: os.unlink(path[:-2] + ext)
        except OSError: pass
    res = {}
    blocks = re.split(r'\n(?=@?[\w.]+\n     : )', '\n' + out)
    for b in blocks:
        m = re.match(r'\s*@?([\w.]+)\n     : (.*)', b, re.S)
        if m:
            res[m.group(1).split('.')[-1]] = '\n'.join(l[7:] if l.startswith('       ') else l for l in m.group(2).rstrip().split('\n'))
    missing = [l for l in lemmas if l.split('.')[-1] not in res]
    if missing: raise SystemExit('could not get statements for %s\n%s' % (missing, out[-2000:]))
    return res

def build(pid, title, imports, table, append_to=None):
    if not append_to:
        imports = BASE_IMPORTS + [i for i in imports if i not in BASE_IMPORTS]
    sts = coq_statements(imports, [t[1] for t in table if len(t) <= 4]) if any(len(t) <= 4 for t in table) else {}
    out = []
    if not append_to:
        out += ['(* %s - %s' % (pid, title), '   This file only pins statements; the proofs live in the files named below. *)',
                'From LZ Require Import %s.' % ' '.join(imports), '']
    else:
        out += ['', 'From LZ Require Import %s.' % ' '.join(imports), '']
    unf = coq_unfolded(imports, [t[4] for t in table if len(t) > 4])
    for t in table:
        name, lemma, where, comment = t[:4]
        st = unf[t[4]] if len(t) > 4 else sts[lemma.split('.')[-1]]
        st = '\n'.join('  ' + l for l in st.split('\n'))
        out.append('(* %s   [proved as %s in %s] *)' % (comment, lemma, where))
        out.append('Theorem %s :\n%s.' % (name, st))
        out.append('Proof. exact (@%s). Qed.' % lemma)
        out.append('Check %s :\n%s.' % (name, st))
        out.append('Print Assumptions %s.' % name)
        out.append('')
    path = os.path.join(COQ, 'Props', pid + '.v')
    if append_to:
        open(path, 'a').write('\n'.join(out))
    else:
        open(path, 'w').write('\n'.join(out))

if __name__ == '__main__':
    import props_table2
    for key in (sys.argv[1:] or props_table2.TABLE.keys()):
        t = props_table2.TABLE[key]
        build(t['pid'], t['title'], t['imports'], t['theorems'], t.get('append'))
        print('wrote Props/%s.v (+%d theorems)' % (t['pid'], len(t['theorems'])))
