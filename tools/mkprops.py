#!/usr/bin/env python3
"""Builds coq/Props/<id>.v from a table of (property theorem name, proved lemma, source file).
The statement text is copied from the lemma's source (binders turned into a forall), so the pinned statement
is visible in the Props file; coqc then checks that `exact lemma` really proves that statement."""
import re, sys, os
ROOT = os.path.dirname(os.path.dirname(os.path.abspath(__file__)))
COQ = os.path.join(ROOT, 'coq')

def strip_comments(s):
    out, depth, i = [], 0, 0
    while i < len(s):
        if s.startswith('(*', i): depth += 1; i += 2
        elif s.startswith('*)', i) and depth: depth -= 1; i += 2
        else:
            if depth == 0: out.append(s[i])
            i += 1
    return ''.join(out)

def statement(file, lemma):
    src = strip_comments(open(os.path.join(COQ, file)).read())
    m = re.search(r'^\s*(?:Theorem|Lemma|Corollary)\s+%s\b(.*?)\.\s*\n\s*Proof' % re.escape(lemma), src, re.S | re.M)
    if not m: raise SystemExit('cannot find %s in %s' % (lemma, file))
    body = m.group(1)
    # split binders from statement at the first top-level ':'
    depth, i = 0, 0
    while i < len(body):
        c = body[i]
        if c in '([{': depth += 1
        elif c in ')]}': depth -= 1
        elif c == ':' and depth == 0 and body[i:i+2] != ':=':
            break
        i += 1
    binders, stmt = body[:i].strip(), body[i+1:].strip()
    binders = re.sub(r'\{(\w+)\}', r'\1', binders)
    binders = re.sub(r'\{(\w+\s*:[^}]*)\}', r'(\1)', binders)
    binders = ' '.join(binders.split())
    stmt = '\n'.join('  ' + l.strip() for l in stmt.split('\n'))
    return ('forall %s,\n%s' % (binders, stmt)) if binders else stmt

def build(pid, title, imports, table):
    out = ['(* %s - %s', '   This file only pins statements; the proofs live in the files named below. *)' ]
    out[0] = out[0] % (pid, title)
    out.append('From LZ Require Import %s.' % ' '.join(imports))
    out.append('')
    for name, lemma, file, comment in table:
        st = statement(file, lemma)
        out.append('(* %s   [proved as %s in %s] *)' % (comment, lemma, file))
        out.append('Theorem %s : %s.' % (name, st))
        out.append('Proof. exact %s%s. Qed.' % ('@' if re.search(r'\{\w+', open(os.path.join(COQ, file)).read().split(lemma, 1)[1].split(':', 1)[0]) else '', lemma))
        out.append('Check %s : %s.' % (name, st))
        out.append('Print Assumptions %s.' % name)
        out.append('')
    open(os.path.join(COQ, 'Props', pid + '.v'), 'w').write('\n'.join(out))

if __name__ == '__main__':
    import props_table
    for pid in (sys.argv[1:] or props_table.TABLE.keys()):
        t = props_table.TABLE[pid]
        build(pid, t['title'], t['imports'], t['theorems'])
        print('wrote Props/%s.v (%d theorems)' % (pid, len(t['theorems'])))
